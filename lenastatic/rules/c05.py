"""C05 -- an analysis gives the same result whether it is driven by run or by fill."""
import ast

from .. import astutil as A
from .. import paths as P
from ..loader import methods
from ..selftest.runner import M, TW, V
from . import common as K
from .c10 import check_stateless, flow_loop

PROPERTY = "C05"
EXPLANATION = (
    "Adapter discipline and decomposability.  Decided: (a) TYPESTATE -- on every normal exit of the constructors of "
    "Call, Run, FillInto, FillCompute, FillRequest, SourceEl, FillSeq, FillComputeSeq and FillRequestSeq (helpers "
    "that receive self are inlined) no stub protocol method survives; every protocol attribute is bound to a "
    "method obtained from the wrapped element *by the name the caller gave* (getattr(el, <that parameter>), or the "
    "documented cast request<->compute) on a path where it was tested callable, to an own adapter method, or to "
    "the explicit function when el is None; every raise is LenaTypeError/LenaValueError; FillInto drives a run "
    "element value by value only when it declares _can_break_flow; (b) wrapper bodies -- Run._call_run yields "
    "self._el(val) exactly once per value, Run._fc_run fills every value and computes once after the loop, "
    "FillInto.fill_into fills element with self._el(value) once, _run_fill_into fills every result of run([value]), "
    "_Fill.fill forwards to fill_into(self._fill_el, value), FillSeq nests _Fill right-to-left over all elements "
    "but the last and converts what is not fill_into-capable with FillInto, Call/SourceEl call the bound method; "
    "(c) STATELESS -- every class declaring _can_break_flow has a per-value run (no loop-carried definitions, no "
    "write to self, nothing yielded outside the loop), and the pre-processing vocabulary (Filter, Slice, RunIf) has "
    "fill_into or that declaration; (d) AGREE -- Filter.run and Filter.fill_into test the same selector on the "
    "value and forward the value itself, Count.fill_into counts and fills once, Slice.fill_into fills at most once, "
    "only at the selected index, advances its index exactly once and raises LenaStopFill only when the index "
    "iterator is exhausted; (f) FillComputeSeq/FillRequestSeq split their elements into everything up to the first "
    "accumulator (a FillSeq) and a Sequence of everything after it, in order, and compute/request post-process the "
    "accumulator's results with that Sequence; the wrapped element itself may stand only for a call-like attribute, never for run; the "
    "results of run([value]) are filled in a loop, not taken with next().  Run._call_run applies the callable in its own generator frame "
    "(not through map/filter, which would let a StopIteration of the callable end the flow silently).  Does not decide equality of the drivers' results on concrete chains."    " Added after the eighth round of seeded changes and the second round of behaviour-preserving changes: (g) STOP SIGNAL, tree-wide: a try whose body fills another element (x.fill / x.fill_into) has a handler for LenaStopFill, a class above it or everything that does not re-raise only in Split.run."
)
RULES = {
    "C05-a": "TYPESTATE: adapters bind the requested method of the wrapped element, leave no stub, raise only Lena type/value errors",
    "C05-b": "wrapper bodies forward exactly once, in the documented nesting",
    "C05-c": "STATELESS: elements that declare _can_break_flow have a per-value run; pre-processing vocabulary is fill-capable",
    "C05-d": "AGREE: run and fill_into of Filter/Count/Slice treat a value the same way",
    "C05-f": "FillComputeSeq/FillRequestSeq = FillSeq up to the first accumulator + Sequence of the rest, in order",
    "C05-g": "STOP SIGNAL: LenaStopFill raised by a filled element is kept only by the driver (Split.run); every other function that "
             "fills another element inside a try re-raises it",
}
AD = "lena.core.adapters"
ADAPTERS = [
    (AD, "Call"), (AD, "Run"), (AD, "FillInto"), (AD, "FillCompute"), (AD, "FillRequest"), (AD, "SourceEl"),
    ("lena.core.fill_seq", "FillSeq"), ("lena.core.fill_compute_seq", "FillComputeSeq"),
    ("lena.core.fill_request_seq", "FillRequestSeq"),
]
LENA_ERRORS = ("lena.core.exceptions.LenaTypeError", "lena.core.exceptions.LenaValueError")
PROTO = ("run", "fill", "compute", "request", "fill_into", "reset", "_call", "_el_fill", "_el_request", "_el_reset")
# protocol attribute -> constructor parameters that may name the method it is bound to
NAME_PARAMS = {"run": {"run"}, "fill": {"fill"}, "compute": {"compute"}, "request": {"request"}, "fill_into": {"fill_into"},
               "_call": {"call"}, "_el_fill": {"fill"}, "_el_request": {"request"}, "_el_reset": {"reset_name"}, "reset": {"reset_name"}}
# documented casts: (class, attribute) -> constant method names that may stand in
CASTS = {("FillCompute", "compute"): {"request"}, ("FillRequest", "_el_request"): {"compute"}}


def real(stmts):
    """Statements without no-op expression statements (`None`, `...`, a stray string) and `pass`."""
    return [st for st in stmts if not (isinstance(st, ast.Pass) or (isinstance(st, ast.Expr) and isinstance(st.value, ast.Constant)))]


def local_names(fn):
    """Names bound inside fn (assignments, loop/with/except/comprehension targets) that are not parameters."""
    params = set(A.func_params(fn))
    out = set()
    for n in A.walk_local(fn):
        if isinstance(n, ast.Name) and isinstance(n.ctx, (ast.Store, ast.Del)) and n.id not in params:
            out.add(n.id)
        elif isinstance(n, ast.ExceptHandler) and n.name and n.name not in params:
            out.add(n.name)
    return out


def pkey(fn, p, limit=2):
    """p.describe(limit) with every local of fn written `_`: a finding key that does not depend on how locals are named."""
    m = dict((n, "_") for n in local_names(fn))
    conds = []
    for t, pol in p.literals():
        s = A.norm_src(t, m)    # `b > a` reads `a < b`: the key does not depend on how a comparison is oriented
        if not pol:
            s = "not (%s)" % s if isinstance(t, (ast.BoolOp, ast.Compare, ast.IfExp)) else "not " + s
        conds.append(s)
    excs = [A.short(e[1].type, 40) if e[1].type is not None else "BaseException" for e in p.ev if e[0] == "exc"]
    s = " and ".join(conds[-limit:]) if conds else "(unconditional)"
    if excs:
        s += " [in handler of %s]" % ", ".join(excs)
    return s


def local_map(fn, derived):
    """Mapping actual -> canonical for A.src_with from {canonical: actual local name or None}.  A different
    local that happens to carry a canonical name is moved out of the way, so it can never be mistaken for the role."""
    m = {}
    for canon, actual in derived.items():
        if actual is not None:
            m[actual] = canon
    used = A.names_in(fn)
    for canon in derived:
        if canon in used and canon not in m:
            m[canon] = canon + "__other"
    return m


def inline(fn, expr, depth=3):
    """expr with a non-parameter local that has exactly one definition in fn replaced by that definition."""
    params = A.func_params(fn)
    while isinstance(expr, ast.Name) and expr.id not in params and depth > 0:
        v = A.single_def(fn, expr.id)
        if v is None:
            break
        expr, depth = v, depth - 1
    return expr


def one(items):
    items = list(items)
    return items[0] if len(items) == 1 else None


def canonical(attr):
    return attr[4:] if attr.startswith("_el_") else attr.lstrip("_") if attr == "_call" else attr


def is_stub(fn):
    body = A.body_wo_doc(fn)
    if not body:
        return True
    if len(body) == 1 and isinstance(body[0], ast.Pass):
        return True
    if len(body) == 1 and isinstance(body[0], ast.Raise):
        ex = body[0].exc
        ex = ex.func if isinstance(ex, ast.Call) else ex
        return ex is not None and A.src(ex).endswith("LenaNotImplementedError")
    return False


def helper_of(ctx, call, self_name="self"):
    """Function node of a module-level helper called as helper(self, ...)."""
    if not (isinstance(call, ast.Call) and call.args and isinstance(call.args[0], ast.Name) and call.args[0].id == self_name):
        return None
    t = ctx.res.resolve(call.func) if isinstance(call.func, (ast.Name, ast.Attribute)) else None
    if t is not None and t.is_func:
        return t.node
    return None


def always_assigned(fn, selfname):
    """Attributes of *selfname* assigned (or set with setattr(self, <param>, ...)) on every normal path of fn."""
    res = None
    dyn = False
    for p in P.paths_of(fn):
        if p.end == "raise":
            continue
        got = set()
        for s in p.stmts():
            for t in A.assigned_targets(s):
                if isinstance(t, ast.Attribute) and isinstance(t.value, ast.Name) and t.value.id == selfname:
                    got.add(t.attr)
            for c in A.walk_local(s):
                if isinstance(c, ast.Call) and A.call_name(c) == "setattr" and c.args and A.src(c.args[0]) == selfname:
                    dyn = True
        res = got if res is None else (res & got)
    return res or set(), dyn


def resolve_local(p, name, upto):
    """Value last assigned to local *name* on path p before event index upto."""
    val = None
    for e in p.ev[:upto]:
        if e[0] == "stmt" and isinstance(e[1], ast.Assign):
            for t in e[1].targets:
                if isinstance(t, ast.Name) and t.id == name:
                    val = e[1].value
    return val


def getattr_parts(expr):
    """(obj_src, name_node) for getattr(obj, name[, default])."""
    if isinstance(expr, ast.Call) and A.call_name(expr) == "getattr" and isinstance(expr.func, ast.Name) and len(expr.args) >= 2:
        return A.src(expr.args[0]), expr.args[1]
    return None


def returned(fn, ret):
    """The expression `return` statement *ret* of fn gives back: a local that has the same last definition on every
    path reaching the statement is replaced by that definition (`_r = f(x); return _r` reads `f(x)`)."""
    v = ret.value
    if not (isinstance(v, ast.Name) and v.id not in A.func_params(fn)):
        return v
    vals = []
    for p in P.paths_of(fn):
        for i, e in enumerate(p.ev):
            if e[0] == "stmt" and e[1] is ret:
                vals.append(resolve_local(p, v.id, i))
    if vals and all(x is not None for x in vals) and len(set(A.src(x) for x in vals)) == 1:
        return vals[0]
    return v


def updates_of(p, target_src):
    """How path p writes the attribute written *target_src*: (steps, other) where steps are the (op, value) of every
    `T op= E`, `T = T op E` and (commutative op) `T = E op T`, and other are all remaining statements that bind T."""
    steps, other = [], []
    for s in p.stmts():
        aa = A.as_augassign(s)
        if aa is not None and A.src(aa[0]) == target_src:
            steps.append((aa[1], aa[2]))
            continue
        if isinstance(s, ast.Assign) and len(s.targets) == 1 and A.src(s.targets[0]) == target_src and isinstance(s.value, ast.BinOp) \
                and isinstance(s.value.op, (ast.Add, ast.Mult)) and A.src(s.value.right) == target_src:
            steps.append((s.value.op, s.value.left))
            continue
        if any(A.src(t) == target_src for tt in A.assigned_targets(s) for t in ast.walk(tt)):
            other.append(s)
    return steps, other


def is_plus_one(step):
    return isinstance(step[0], ast.Add) and A.int_const(step[1]) == 1


def check_adapters(ctx):
    res = ctx.res
    n_cls = 0
    n_bind = 0
    for modname, cname in ADAPTERS:
        cls = ctx.tree.cls(modname, cname)
        ms = methods(cls)
        init = ms.get("__init__")
        if not ctx.require(init is not None, "C05-a", cls, "%s has no constructor" % cname):
            continue
        n_cls += 1
        stubs = sorted(n for n, f in ms.items() if n in ("run", "fill", "compute", "request", "fill_into") and is_stub(f))
        params = A.func_params(init)
        n_exit = 0
        for p in P.paths_of(init):
            if p.end == "raise":
                continue
            n_exit += 1
            bound = set()
            for i, e in enumerate(p.ev):
                if e[0] != "stmt":
                    continue
                s = e[1]
                for t in A.assigned_targets(s):
                    if A.is_self_attr(t):
                        bound.add(t.attr)
                for c in A.walk_local(s):
                    h = helper_of(ctx, c)
                    if h is not None:
                        hp = A.func_params(h)
                        got, dyn = always_assigned(h, hp[0])
                        bound |= got
            left = [m for m in stubs if m not in bound]
            ctx.check("C05-a", not left, init, "%s.__init__ can finish [%s] with the stub method%s %s still in place: the adapter is "
                      "accepted at construction and then does nothing (or raises LenaNotImplementedError) when it is driven" % (
                          cname, p.describe(4), "s" if len(left) > 1 else "", ", ".join(left)),
                      detail="%s: stubs %s overwritten on exit [%s]" % (cname, stubs or "-", p.describe(2)),
                      construct="stub:%s:%s" % (cname, ",".join(left)), path=p)
            # bindings of protocol attributes
            for i, e in enumerate(p.ev):
                if e[0] != "stmt" or not isinstance(e[1], ast.Assign):
                    continue
                s = e[1]
                for t in s.targets:
                    if not (A.is_self_attr(t) and t.attr in PROTO):
                        continue
                    n_bind += 1
                    check_binding(ctx, cname, init, params, p, i, t.attr, s.value)
        ctx.instances_floor("C05-a/exits:%s" % cname, n_exit, 1, "normal exits of %s.__init__" % cname)
        # raises
        fns = [init]
        for c in A.walk_local(init):
            h = helper_of(ctx, c)
            if h is not None and h not in fns:
                fns.append(h)
        for f in fns:
            for r in A.walk_local(f):
                if not isinstance(r, ast.Raise):
                    continue
                check_raise(ctx, cname, f, r)
    ctx.instances_floor("C05-a", n_cls, 9, "adapter and sequence constructors")
    ctx.instances_floor("C05-a/bindings", n_bind, 30, "bindings of protocol attributes over all constructor paths")
    # helper constructors used by Call / SourceEl
    h = ctx.tree.func(AD, "_init_callable")
    hself = (A.func_params(h) or [None])[0]
    for p in P.paths_of(h):
        if p.end == "raise":
            continue
        for i, e in enumerate(p.ev):
            if e[0] == "stmt" and isinstance(e[1], ast.Assign):
                for t in e[1].targets:
                    if isinstance(t, ast.Attribute) and isinstance(t.value, ast.Name) and t.value.id == hself and t.attr in PROTO:
                        check_binding(ctx, "Call/_init_callable", h, A.func_params(h), p, i, t.attr, e[1].value)
    for r in A.walk_local(h):
        if isinstance(r, ast.Raise):
            check_raise(ctx, "_init_callable", h, r)


def check_raise(ctx, cname, f, r):
    res = ctx.res
    if r.exc is None:
        ctx.ok("C05-a", r, "%s: bare re-raise" % cname, nontrivial=False)
        return
    ex = r.exc.func if isinstance(r.exc, ast.Call) else r.exc
    canon = res.canon(ex) if isinstance(ex, (ast.Name, ast.Attribute)) else None
    what = A.short(ex, 40)
    if canon is None and isinstance(ex, ast.Name):
        # `raise err` of a caught exception
        h = A.enclosing(r, (ast.ExceptHandler,))
        if h is not None and h.name == ex.id and h.type is not None:
            canon = res.canon(h.type)
            what = "caught %s" % A.short(h.type, 40)   # the handler's name for the exception is a local
    ctx.check("C05-a", canon in LENA_ERRORS, r, "%s rejects its arguments with `%s` (%s), not LenaTypeError/LenaValueError" % (
        cname if "." in cname or cname.startswith("_") else cname + ".__init__", A.short(r, 50), canon),
        detail="%s raises %s" % (cname, (canon or "?").rsplit(".", 1)[-1]), construct="raise:%s" % what)


def _is_sentinel_lit(t, pol, names):
    """The path literal says `<name> is _SENTINEL` (written that way and true, or written `is not` and false)."""
    src = A.src(t)
    return any((pol and src == "%s is _SENTINEL" % q) or (not pol and src == "%s is not _SENTINEL" % q) for q in names)


def check_binding(ctx, cname, init, params, p, idx, attr, value):
    """self.<attr> = value at event idx of path p."""
    lits = p.literals()
    where = "%s: self.%s = %s [%s]" % (cname, attr, A.short(value, 40), p.describe(3))
    v = value
    local = None
    if isinstance(v, ast.Name) and v.id not in params:
        local = v.id
        rv = resolve_local(p, v.id, idx)
        if rv is not None:
            v = rv
    naming_all = sorted(NAME_PARAMS.get(attr, set()) & set(params))
    name_absent = any(_is_sentinel_lit(t, pol, naming_all) for t, pol in lits)

    def needs_no_name(kind):
        """A binding that does not look the method up by name is only right when the caller gave no name."""
        if naming_all:
            ctx.check("C05-a", name_absent, value, "%s binds `%s` to %s on a path where the caller may have named a method through `%s` "
                      "[%s]: the explicit method name would be silently ignored" % (cname, attr, kind, naming_all[0], p.describe(3)),
                      detail="%s: %s bound without lookup only when no name was given" % (cname, attr),
                      construct="bind-ignores-name:%s:%s" % (cname, attr), path=p)

    ga = getattr_parts(v)
    if ga is not None:
        obj, name = ga
        allowed_params = NAME_PARAMS.get(attr, set())
        cls_short = cname.split("/")[0]
        if isinstance(name, ast.Name):
            okn = name.id in allowed_params and name.id in params
            what = "the method named by parameter `%s`" % name.id
        elif isinstance(name, ast.Constant) and isinstance(name.value, str):
            naming = sorted(allowed_params & set(params))
            no_name_given = any(_is_sentinel_lit(t, pol, naming) for t, pol in lits)
            cast = name.value in CASTS.get((cls_short, attr), set())
            okn = cast or (name.value == canonical(attr) and (not naming or no_name_given))
            what = "the method '%s'" % name.value
            if not okn and name.value == canonical(attr):
                what += " (ignoring the name the caller passed in `%s`)" % naming[0]
        else:
            ctx.unknown("C05-a", value, "%s: method name `%s` is neither a parameter nor a constant" % (where, A.src(name)))
            return
        ctx.check("C05-a", okn, value, "%s binds its `%s` to %s of the wrapped element: driving the adapter would call a different "
                  "method than the one the caller asked for (%s expected)" % (
                      cname, attr, what, " or ".join(sorted("parameter " + x for x in allowed_params) + ["'%s'" % canonical(attr)])),
                  detail="%s: %s <- getattr(%s, %s)" % (cname, attr, obj, A.src(name)), construct="bind-name:%s:%s:%s" % (cname, attr, A.src(name)), path=p)
        # tested callable on this path
        guarded = False
        for t, pol in lits:
            if pol and isinstance(t, ast.Call) and A.call_name(t) == "callable" and len(t.args) == 1:
                a = t.args[0]
                if local is not None and isinstance(a, ast.Name) and a.id == local:
                    guarded = True
                ga2 = getattr_parts(a)
                if ga2 is not None and ga2[0] == obj and A.src(ga2[1]) == A.src(name):
                    guarded = True
        ctx.check("C05-a", guarded, value, "%s binds `%s` to %s without having tested it callable on this path [%s]: a missing or "
                  "non-callable method is accepted at construction and fails during the run" % (cname, attr, A.short(v, 40), p.describe(3)),
                  detail="%s: %s bound under callable(...)" % (cname, attr), construct="bind-guard:%s:%s" % (cname, attr), path=p)
        return
    if A.is_self_attr(v):
        ctx.ok("C05-a", value, "%s: %s is the adapter's own method %s" % (cname, attr, v.attr))
        needs_no_name("its own method %s" % v.attr)
        if cname == "FillInto" and v.attr == "_run_fill_into":
            g = any(pol and "_can_break_flow" in A.src(t) and A.call_name(t) == "hasattr" for t, pol in lits if isinstance(t, ast.Call))
            ctx.check("C05-a", g, value, "FillInto drives a run element value by value (run([value])) without requiring that it declares "
                      "_can_break_flow [%s]: an element whose output depends on the whole flow would give different results when "
                      "filled" % p.describe(3), detail="FillInto: _run_fill_into only under hasattr(el, '_can_break_flow')",
                      construct="can-break-flow-guard", path=p)
        return
    if isinstance(v, ast.Constant) and v.value is None:
        ctx.ok("C05-a", value, "%s: %s disabled (None) when the element has no such method" % (cname, attr), nontrivial=False)
        return
    if isinstance(v, ast.Attribute) and v.attr == canonical(attr):
        ctx.ok("C05-a", value, "%s: %s is the %s of its inner %s" % (cname, attr, v.attr, A.short(v.value, 30)))
        return
    if isinstance(v, ast.Name) and v.id in params:
        # the wrapped object itself / the explicit function
        if v.id == "el":
            # a callable element is a function of one value: it can stand for a call-like attribute, never for a
            # flow-level protocol method (run/fill/compute/request/fill_into take a flow, a value to store, or nothing)
            ctx.check("C05-a", canonical(attr) in ("__call__", "_call", "call"), value, "%s binds its `%s` to the wrapped element itself "
                      "[%s]: a callable element maps one value to one value, it is not a %s method -- it has to be driven by the "
                      "adapter's own per-value wrapper" % (cname, attr, p.describe(3), canonical(attr)),
                      detail="%s: the element itself only stands for a call" % cname, construct="bind-el-as:%s:%s" % (cname, attr), path=p)
            needs_no_name("the element itself")
            g = any(pol and A.src(t) == "callable(el)" for t, pol in lits)
            ctx.check("C05-a", g, value, "%s binds `%s` to the element itself without testing callable(el) [%s]" % (cname, attr, p.describe(3)),
                      detail="%s: %s is the callable element itself" % (cname, attr), construct="bind-el:%s:%s" % (cname, attr), path=p)
            return
        if v.id in NAME_PARAMS.get(attr, ()):
            g = any(pol and A.src(t) == "el is None" for t, pol in lits)
            ctx.check("C05-a", g, value, "%s binds `%s` to the parameter `%s` itself on a path where an element was given [%s]" % (
                cname, attr, v.id, p.describe(3)), detail="%s: explicit function when el is None" % cname, construct="bind-param:%s:%s" % (cname, attr), path=p)
            return
    if isinstance(v, ast.Lambda) and cname == "SourceEl":
        needs_no_name("a wrapper of the iterable")
        g = any(pol and A.src(t).replace('"', "'") == "hasattr(el, '__iter__')" for t, pol in lits)
        ctx.check("C05-a", g and A.src(v.body) == "el" and not A.func_params(v), value, "SourceEl wraps a non-callable in `%s` without "
                  "having tested that it is iterable" % A.short(v, 40), detail="SourceEl: iterable wrapped as lambda: el", construct="bind-lambda", path=p)
        return
    ctx.unknown("C05-a", value, "%s: unrecognised value bound to a protocol attribute" % where)


# -- C05-b ---------------------------------------------------------------------------------
def single_loop(fn, iter_src):
    loops = [l for l in fn.body if isinstance(l, ast.For)]
    if len(loops) == 1 and A.src(loops[0].iter) == iter_src:
        return loops[0]
    return None


def check_wrappers(ctx):
    res = ctx.res
    # Run._call_run
    fn = ctx.tree.func(AD, "Run._call_run")
    loop = flow_loop(ctx, fn)
    # the callable is applied inside Run's own generator frame: only there does Python turn a StopIteration escaping from the
    # callable into RuntimeError (PEP 479).  map()/filter()/itertools apply it in C and let the StopIteration through -- the
    # consumer (Sequence, Cache writing its file) takes it for the regular end of the flow and the rest of the flow is lost
    lazy_c = [c for r in A.walk_local(fn) if isinstance(r, ast.Return) and r.value is not None for c in ast.walk(r.value)
              if isinstance(c, ast.Call) and (res.call_canon(c) or "").split(".")[0] in ("builtins", "itertools")
              and (res.call_canon(c) or "").rsplit(".", 1)[-1] in ("map", "imap", "starmap", "filter") and any("self._el" in A.src(a) for a in c.args)]
    if loop is None and not A.is_generator(fn) and lazy_c:
        ctx.violation("C05-b", lazy_c[0], "Run._call_run hands the callable to `%s` instead of applying it in its own generator: a StopIteration "
                      "raised by the callable (next() on an exhausted helper iterator) is no longer turned into RuntimeError but ends the "
                      "flow -- the element silently truncates the flow, which no other driver of the same callable (FillInto.fill_into, "
                      "Call) does, and a Cache downstream stores the truncated flow as complete" % A.short(lazy_c[0], 40),
                      construct="call-run-not-generator")
    elif ctx.require(loop is not None, "C05-b", fn, "Run._call_run: per-value loop not found"):
        var = loop.target.id
        for q in P.loop_body_paths(loop):
            ys = q.yields()
            ok = len(ys) == 1 and isinstance(ys[0][1], ast.Yield) and ys[0][1].value is not None
            if ok:
                yv = ys[0][1].value
                if isinstance(yv, ast.Name):
                    rv = resolve_local(q, yv.id, ys[0][0])
                    yv = rv if rv is not None else yv
                ok = isinstance(yv, ast.Call) and len(yv.args) == 1 and not yv.keywords and A.src(yv.args[0]) == var
                if ok:
                    f = yv.func
                    if isinstance(f, ast.Name):
                        defs = [s.value for s in A.walk_local(fn) if isinstance(s, ast.Assign) and any(
                            isinstance(t, ast.Name) and t.id == f.id for t in s.targets)]
                        ok = len(defs) == 1 and A.src(defs[0]) == "self._el"
                    else:
                        ok = A.src(f) == "self._el"
            ctx.check("C05-b", ok, loop, "Run._call_run does not yield self._el(%s) exactly once for the pulled value on path [%s]: a "
                      "callable in a Sequence would not be a one-to-one map (and would differ from FillInto.fill_into)" % (var, q.describe(3)),
                      detail="Run._call_run: one yield of self._el(val) per value", construct="call-run:%s" % pkey(fn, q), path=q)
        outside = [y for y in A.walk_local(fn) if isinstance(y, (ast.Yield, ast.YieldFrom)) and not any(a is loop for a in A.ancestors(y))]
        ctx.check("C05-b", not outside, fn, "Run._call_run yields outside its per-value loop", detail="nothing yielded outside the loop",
                  construct="call-run-outside")
    # Run._fc_run
    fn = ctx.tree.func(AD, "Run._fc_run")
    loop = flow_loop(ctx, fn)
    if ctx.require(loop is not None, "C05-b", fn, "Run._fc_run: fill loop not found"):
        var = loop.target.id
        for q in P.loop_body_paths(loop):
            fills = [c for _, c in q.calls() if isinstance(c.func, ast.Attribute) and c.func.attr == "fill"]
            comps = [c for _, c in q.calls() if isinstance(c.func, ast.Attribute) and c.func.attr in ("compute", "request")]
            ok = len(fills) == 1 and A.src(fills[0]) == "self._el.fill(%s)" % var and q.end in ("fall", "continue")
            ctx.check("C05-b", ok, loop, "Run._fc_run does not fill every value exactly once [%s]" % q.describe(3),
                      detail="Run._fc_run: self._el.fill(value) once per value", construct="fc-run-fill:%s" % pkey(fn, q), path=q)
            ctx.check("C05-b", not comps, loop, "Run._fc_run computes inside the fill loop (`%s`): results would be produced per value, "
                      "not once for the whole flow as FillComputeSeq/Split do" % (A.src(comps[0]) if comps else ""),
                      detail="no compute inside the fill loop", construct="fc-run-compute-in-loop", path=q)
        n = 0
        for p in P.paths_of(fn):
            if p.end == "raise":
                continue
            n += 1
            comps = [(i, c) for i, c in p.calls() if A.src(c) == "self._el.compute()"]
            rets = [s for s in p.stmts() if isinstance(s, ast.Return)]
            ok = len(comps) == 1 and len(rets) == 1 and rets[0].value is not None
            if ok:
                rv = rets[0].value
                if isinstance(rv, ast.Name):
                    rv2 = resolve_local(p, rv.id, len(p.ev))
                    rv = rv2 if rv2 is not None else rv
                ok = A.src(rv) == "self._el.compute()"
            ctx.check("C05-b", ok or A.is_generator(fn), fn, "Run._fc_run does not return self._el.compute() computed exactly once after the "
                      "flow is exhausted [%s]" % p.describe(3), detail="Run._fc_run: compute() once, after the loop, returned",
                      construct="fc-run-compute:%s" % pkey(fn, p), path=p)
    # FillInto.fill_into / _run_fill_into
    fn = ctx.tree.func(AD, "FillInto.fill_into")
    body = A.body_wo_doc(fn)
    ps = [p for p in A.func_params(fn) if p != "self"]
    ok = len(body) == 1 and len(ps) == 2 and A.src(body[0]) == "%s.fill(self._el(%s))" % (ps[0], ps[1])
    calls = [c for c in A.walk_local(fn) if isinstance(c, ast.Call) and isinstance(c.func, ast.Attribute) and c.func.attr == "fill"]
    if ok:
        ctx.ok("C05-b", fn, "FillInto.fill_into: element.fill(self._el(value)) once")
    elif len(calls) != 1 or (calls and not (len(calls[0].args) == 1 and "self._el(" in A.src(calls[0].args[0]))):
        ctx.violation("C05-b", fn, "FillInto.fill_into does not fill the element exactly once with self._el(value) (%s)" % (
            "; ".join(A.src(c) for c in calls) or "no fill"), construct="fill-into-body")
    else:
        ctx.unknown("C05-b", fn, "FillInto.fill_into: unrecognised body")
    fn = ctx.tree.func(AD, "FillInto._run_fill_into")
    ps = [p for p in A.func_params(fn) if p != "self"]
    loops = [l for l in A.walk_local(fn) if isinstance(l, ast.For) and A.enclosing(l, (ast.For, ast.While)) is None]
    # the results of run([value]) taken one at a time with next(): only a prefix of them can reach the element
    from ..lazy import FlowAnalyser
    runs = [c for c in A.walk_local(fn) if isinstance(c, ast.Call) and A.src(c.func) == "self._el.run"]
    views = set()
    for st in A.walk_local(fn):
        if isinstance(st, ast.Assign) and len(st.targets) == 1 and isinstance(st.targets[0], ast.Name):
            v = st.value
            while isinstance(v, ast.Call) and A.call_name(v) in ("iter", "flow_to_iter") and v.args:
                v = v.args[0]
            if v in runs or (isinstance(v, ast.Name) and v.id in views):
                views.add(st.targets[0].id)
    pulled_once = [c for c in A.walk_local(fn) if isinstance(c, ast.Call) and ctx.res.call_canon(c) == "builtins.next" and c.args
                   and (A.root_name(c.args[0]) in views or c.args[0] in runs or
                        (isinstance(c.args[0], ast.Call) and c.args[0].args and c.args[0].args[0] in runs))]
    if pulled_once and not any(A.enclosing(c, (ast.For, ast.While)) is not None for c in pulled_once):
        ctx.violation("C05-b", pulled_once[0], "FillInto._run_fill_into takes the results of run([value]) with `%s` outside any loop: only "
                      "the first result of the run element reaches the filled element, the others are dropped -- the chain gives other "
                      "results when filled than when run" % A.short(pulled_once[0], 40), construct="run-fill-into-first-only")
    elif ctx.require(len(loops) == 1 and len(ps) == 2, "C05-b", fn, "FillInto._run_fill_into: expected one loop over the results"):
        l = loops[0]
        it = l.iter
        if isinstance(it, ast.Name) and A.single_def(fn, it.id) is not None:      # an explaining variable
            it = A.single_def(fn, it.id)
        ok = A.src(it) == "self._el.run([%s])" % ps[1]
        ctx.check("C05-b", ok, l, "FillInto._run_fill_into iterates `%s`, not the run of a flow consisting of this one value" % A.short(l.iter, 50),
                  detail="_run_fill_into: for result in self._el.run([value])", construct="run-fill-into-iter")
        for q in P.loop_body_paths(l):
            fills = [c for _, c in q.calls() if isinstance(c.func, ast.Attribute) and c.func.attr == "fill"]
            okq = len(fills) == 1 and A.src(fills[0]) == "%s.fill(%s)" % (ps[0], A.src(l.target)) and q.end in ("fall", "continue")
            ctx.check("C05-b", okq, l, "FillInto._run_fill_into does not fill every result exactly once [%s]" % q.describe(3),
                      detail="_run_fill_into: element.fill(result) for every result", construct="run-fill-into:%s" % pkey(fn, q), path=q)
    # _Fill.fill
    fn = ctx.tree.func("lena.core.fill_seq", "_Fill.fill")
    body = A.body_wo_doc(fn)
    ps = [p for p in A.func_params(fn) if p != "self"]
    good = len(body) == 1 and len(ps) == 1 and A.src(body[0]) == "self._fill_into_el.fill_into(self._fill_el, %s)" % ps[0]
    calls = [c for c in A.walk_local(fn) if isinstance(c, ast.Call) and isinstance(c.func, ast.Attribute) and c.func.attr == "fill_into"]
    if good:
        ctx.ok("C05-b", fn, "_Fill.fill: self._fill_into_el.fill_into(self._fill_el, value)")
    elif len(calls) == 1 and len(calls[0].args) == 2 and ps and (A.src(calls[0].args[0]) != "self._fill_el" or A.src(calls[0].args[1]) != ps[0]
                                                                  or A.src(calls[0].func.value) != "self._fill_into_el"):
        ctx.violation("C05-b", calls[0], "_Fill.fill forwards `%s`: the transformer must fill the *next* element with the value "
                      "(self._fill_into_el.fill_into(self._fill_el, value))" % A.src(calls[0]), construct="fill-forward")
    elif not calls:
        ctx.violation("C05-b", fn, "_Fill.fill does not forward the value at all", construct="fill-forward")
    else:
        ctx.unknown("C05-b", fn, "_Fill.fill: unrecognised body")
    init = ctx.tree.func("lena.core.fill_seq", "_Fill.__init__")
    asg = {A.src(s.targets[0]): A.src(s.value) for s in A.walk_local(init) if isinstance(s, ast.Assign) and len(s.targets) == 1}
    ips = [p for p in A.func_params(init) if p != "self"]
    ctx.check("C05-b", len(ips) == 2 and asg.get("self._fill_into_el") == ips[0] and asg.get("self._fill_el") == ips[1], init,
              "_Fill.__init__ swaps or loses its two elements (%s)" % asg, detail="_Fill keeps (fill_into_el, fill_el) as given", construct="fill-init")
    # Call / SourceEl
    for qual, want in (("Call.__call__", "self._call(%s)"), ("SourceEl.__call__", "self._call()")):
        fn = ctx.tree.func(AD, qual)
        ps = [p for p in A.func_params(fn) if p != "self"]
        rets = [r for r in A.walk_local(fn) if isinstance(r, ast.Return)]
        w = want % ps[0] if "%s" in want else want
        rv = returned(fn, rets[0]) if len(rets) == 1 and rets[0].value is not None else None
        ncalls = len([c for c in A.walk_local(fn) if isinstance(c, ast.Call) and A.src(c.func) == "self._call"])
        if rv is not None and A.src(rv) == w and ncalls == 1:
            ctx.ok("C05-b", fn, "%s returns %s" % (qual, w))
        elif rv is not None and isinstance(rv, ast.Call) and A.src(rv.func) == "self._call":
            ctx.violation("C05-b", rets[0], "%s returns `%s`%s, not %s" % (qual, A.src(rv), " and calls self._call %d times" % ncalls if ncalls != 1 else "", w),
                          construct="call-forward:%s" % qual)
        else:
            ctx.unknown("C05-b", fn, "%s: unrecognised body" % qual)
    check_fill_seq(ctx)


def check_fill_seq(ctx):
    res = ctx.res
    fn = ctx.tree.func("lena.core.fill_seq", "FillSeq.__init__")
    # conversion loop over all but the last
    loops = [l for l in A.walk_local(fn) if isinstance(l, ast.For)]
    conv = [l for l in loops if any(isinstance(c, ast.Call) and res.canon(c.func) == "lena.core.adapters.FillInto" for c in ast.walk(l))]
    nest = [l for l in loops if any(isinstance(c, ast.Call) and A.call_name(c) == "_Fill" for c in ast.walk(l))]
    # The locals are identified by the role they play, not by what the code calls them:
    #   seq     -- the list the conversion loop appends to
    #   last    -- the local defined as self._data_seq[-1]
    #   fill_el -- the local that accumulates the _Fill(...) chain in the nesting loop
    seq = last = fill_el = None
    if len(conv) == 1:
        seq = one(set(c.func.value.id for c in ast.walk(conv[0]) if isinstance(c, ast.Call) and isinstance(c.func, ast.Attribute)
                      and c.func.attr == "append" and isinstance(c.func.value, ast.Name)))
    last = one(set(st.targets[0].id for st in A.walk_local(fn) if isinstance(st, ast.Assign) and len(st.targets) == 1
                   and isinstance(st.targets[0], ast.Name) and A.src(st.value) == "self._data_seq[-1]"))
    if len(nest) == 1:
        fill_el = one(set(st.targets[0].id for st in A.walk_body(nest[0].body) if isinstance(st, ast.Assign) and len(st.targets) == 1
                          and isinstance(st.targets[0], ast.Name) and isinstance(st.value, ast.Call) and A.call_name(st.value) == "_Fill"))
    m = local_map(fn, {"seq": seq, "last": last, "fill_el": fill_el})
    N = lambda node: A.src_with(node, m)
    if ctx.require(len(conv) == 1 and len(nest) == 1, "C05-b", fn, "FillSeq.__init__: conversion loop and nesting loop not found"):
        c = conv[0]
        o = K.iter_order(c.iter, "self._data_seq", allow_slice="self._data_seq[:-1]")
        if A.src(c.iter) == "self._data_seq[:-1]":
            ctx.ok("C05-b", c, "FillSeq converts every element but the last, in order")
        elif o == "wrong" or A.src(c.iter) == "self._data_seq":
            ctx.violation("C05-b", c, "FillSeq.__init__ converts `%s`, not all elements but the last in order" % A.src(c.iter), construct="fillseq-conv-iter")
        else:
            ctx.unknown("C05-b", c, "FillSeq.__init__ iterates `%s`" % A.src(c.iter))
        el = A.src(c.target)
        for q in P.loop_body_paths(c):
            if q.end == "raise":
                continue
            apps = [cc for _, cc in q.calls() if isinstance(cc.func, ast.Attribute) and cc.func.attr == "append"]
            lits = q.literal_srcs()
            ok = len(apps) == 1 and len(apps[0].args) == 1
            if ok:
                a = K.value_on_path(q, apps[0].args[0], stop=(el,))
                if A.src(a) == el:
                    ok = "hasattr(%s, 'fill_into')" % el in lits and "callable(%s.fill_into)" % el in lits
                else:
                    rv = a
                    ok = isinstance(rv, ast.Call) and res.canon(rv.func) == "lena.core.adapters.FillInto" and len(rv.args) == 1 and A.src(rv.args[0]) == el
            ctx.check("C05-b", ok, c, "FillSeq.__init__ keeps an element that is neither fill_into-capable nor converted with FillInto "
                      "[%s]" % q.describe(3), detail="FillSeq: element kept if it has fill_into, else FillInto(el)", construct="fillseq-conv:%s" % pkey(fn, q), path=q)
        n = nest[0]
        it = n.iter
        good = isinstance(it, ast.Call) and A.call_name(it) == "reversed" and len(it.args) == 1 and N(it.args[0]) == "seq[:-1]"
        if good:
            ctx.ok("C05-b", n, "FillSeq nests _Fill right to left over all elements but the last")
        elif N(it) in ("seq[:-1]", "seq", "reversed(seq)"):
            ctx.violation("C05-b", n, "FillSeq.__init__ nests the transformers over `%s`: the chain must be built from the last "
                          "transformer backwards (reversed(<converted elements>[:-1])) so that fill(value) applies them left to right" % A.src(it),
                          construct="fillseq-nest-iter")
        else:
            ctx.unknown("C05-b", n, "FillSeq.__init__ nests over `%s`%s" % (
                A.src(it), "" if seq is not None else " (the list of converted elements could not be identified)"))
        body = real(n.body)
        okb = fill_el is not None and len(body) == 1 and isinstance(body[0], ast.Assign) and N(body[0]) == "fill_el = _Fill(%s, fill_el)" % N(n.target)
        if okb:
            ctx.ok("C05-b", n, "fill_el = _Fill(el, fill_el)")
        else:
            calls = [cc for cc in ast.walk(n) if isinstance(cc, ast.Call) and A.call_name(cc) == "_Fill"]
            if len(calls) == 1 and len(calls[0].args) == 2 and A.src(calls[0].args[0]) != A.src(n.target):
                ctx.violation("C05-b", calls[0], "FillSeq nests `%s`: the transformer and the element it fills are swapped" % A.src(calls[0]),
                              construct="fillseq-nest-body")
            else:
                ctx.unknown("C05-b", n, "FillSeq.__init__: unrecognised nesting body")
    asg = {}
    for s in fn.body:
        if isinstance(s, ast.Assign) and len(s.targets) == 1:
            asg.setdefault(A.src(s.targets[0]), []).append(s.value)
    if ctx.require(fill_el is not None, "C05-b", fn, "FillSeq.__init__: the local that accumulates the _Fill chain could not be identified"):
        bound = [N(v) for v in asg.get("self.fill", [])]
        ctx.check("C05-b", bound == ["fill_el.fill"], fn, "FillSeq.fill is bound to %s, not to the outermost _Fill" % (
            [A.src(v) for v in asg.get("self.fill", [])] or None), detail="FillSeq.fill = outermost _Fill.fill", construct="fillseq-fill")
        # the chain starts from the last element: the accumulator is initialised (outside the loop) with self._data_seq[-1]
        inits = [A.src(inline(fn, v)) for v in asg.get(fill_el, [])]
        ctx.check("C05-b", "self._data_seq[-1]" in inits, fn,
                  "FillSeq does not start the chain from its last element (the one that is filled)", detail="chain starts at the last element",
                  construct="fillseq-last")
    want = ["not callable(getattr(self._data_seq[-1], 'fill', None))"] + (["not callable(getattr(last, 'fill', None))"] if last is not None else [])
    okg = any(N(g.test) in want and real(g.body) and isinstance(real(g.body)[-1], ast.Raise) for g in fn.body if isinstance(g, ast.If))
    ctx.check("C05-b", okg, fn, "FillSeq.__init__ does not reject a last element without a callable fill", detail="last element must have fill",
              construct="fillseq-last-guard")


# -- C05-c ---------------------------------------------------------------------------------
def check_can_break_flow(ctx):
    n = 0
    for m, c in ctx.tree.classes():
        declares = any(isinstance(st, ast.Assign) and any(isinstance(t, ast.Name) and t.id == "_can_break_flow" for t in st.targets)
                       for st in c.body)
        if not declares:
            continue
        n += 1
        ms = methods(c)
        fn = ms.get("run")
        qual = "%s.run" % c.name
        if not ctx.require(fn is not None, "C05-c", c, "%s declares _can_break_flow but has no run" % c.name):
            continue
        loop = flow_loop(ctx, fn)
        if loop is None or not A.is_generator(fn):
            ctx.violation("C05-c", fn, "%s declares _can_break_flow, but its run is not a single per-value loop `for v in flow`: "
                          "FillInto will feed it one value at a time and the results will differ from run on the whole flow" % c.name,
                          construct="not-per-value:%s" % c.name)
            continue
        outside = [y for y in A.walk_local(fn) if isinstance(y, (ast.Yield, ast.YieldFrom)) and not any(a is loop for a in A.ancestors(y))]
        ctx.check("C05-c", not outside, fn if not outside else outside[0], "%s yields outside its per-value loop (`%s`): run([v1, v2]) then "
                  "differs from run([v1]) followed by run([v2])" % (qual, A.short(outside[0], 40) if outside else ""),
                  detail="%s: nothing yielded before or after the loop" % qual, construct="yield-outside:%s" % c.name)
        other_uses = [x for x in A.walk_local(fn) if isinstance(x, ast.Name) and x.id == loop.iter.id and isinstance(x.ctx, ast.Load) and x is not loop.iter]
        ctx.check("C05-c", not other_uses, fn, "%s uses the flow outside the loop head" % qual, detail="%s: the flow is only iterated" % qual,
                  construct="flow-use:%s" % c.name)
        check_stateless(ctx, m.name, qual, fn, loop, P.loop_body_paths(loop), rule="C05-c")
        # `else:` of the loop / break would make the result depend on the rest of the flow
        brk = [b for b in A.walk_body(loop.body) if isinstance(b, (ast.Break, ast.Return)) and A.enclosing(b, (ast.For, ast.While)) is loop]
        ctx.check("C05-c", not brk and not loop.orelse, loop, "%s can leave its per-value loop early: later values are not processed, unlike "
                  "value-by-value filling" % qual, detail="%s: the loop is never left early" % qual, construct="early-exit:%s" % c.name)
    ctx.instances_floor("C05-c", n, 2, "classes declaring _can_break_flow")
    # pre-processing vocabulary is fill-capable
    for modname, cname in (("lena.flow.filter", "Filter"), ("lena.flow.iterators", "Slice"), ("lena.flow.elements", "RunIf"),
                           ("lena.flow.elements", "Count")):
        cls = ctx.tree.cls(modname, cname)
        ms = methods(cls)
        declares = any(isinstance(st, ast.Assign) and any(isinstance(t, ast.Name) and t.id == "_can_break_flow" for t in st.targets) for st in cls.body)
        ctx.check("C05-c", "fill_into" in ms or declares, cls, "%s has neither fill_into nor _can_break_flow: it cannot precede an "
                  "accumulator in a FillComputeSeq / Split branch" % cname, detail="%s is fill-capable (%s)" % (cname, "fill_into" if "fill_into" in ms else "_can_break_flow"),
                  construct="fill-capable:%s" % cname)


# -- C05-d ---------------------------------------------------------------------------------
def check_agree(ctx):
    # Filter
    run = ctx.tree.func("lena.flow.filter", "Filter.run")
    fi = ctx.tree.func("lena.flow.filter", "Filter.fill_into")
    # run: generator expression or explicit loop
    test_run = fwd_run = var = None
    rets = [r for r in A.walk_local(run) if isinstance(r, ast.Return) and isinstance(r.value, ast.GeneratorExp)]
    if rets:
        g = rets[0].value
        if len(g.generators) == 1 and len(g.generators[0].ifs) == 1 and isinstance(g.generators[0].target, ast.Name):
            var = g.generators[0].target.id
            test_run, fwd_run = g.generators[0].ifs[0], g.elt
    else:
        loop = flow_loop(ctx, run)
        lbody = real(loop.body) if loop is not None else []
        if len(lbody) == 1 and isinstance(lbody[0], ast.If) and not lbody[0].orelse:
            ys = [y for y in A.walk_body(loop.body) if isinstance(y, ast.Yield)]
            if len(ys) == 1:
                var, test_run, fwd_run = loop.target.id, lbody[0].test, ys[0].value
    ps = [p for p in A.func_params(fi) if p != "self"]
    body = A.body_wo_doc(fi)
    if ctx.require(test_run is not None and len(ps) == 2 and len(body) == 1 and isinstance(body[0], ast.If), "C05-d", run,
                   "Filter.run / Filter.fill_into: unrecognised shape"):
        iff = body[0]
        norm = lambda e, v: A.norm_src(e, {v: "<V>"}) if e is not None else None
        t1, t2 = norm(test_run, var), norm(iff.test, ps[1])
        ctx.check("C05-d", t1 == t2, iff, "Filter.run keeps a value when `%s`, Filter.fill_into fills it when `%s`: a filter before an "
                  "accumulator selects different values in a Sequence and in a FillComputeSeq/Split" % (A.src(test_run), A.src(iff.test)),
                  detail="Filter: run and fill_into test %s" % t1, construct="filter-test")
        ctx.check("C05-d", isinstance(fwd_run, ast.Name) and fwd_run.id == var, run, "Filter.run yields `%s`, not the value itself" % A.src(fwd_run),
                  detail="Filter.run forwards the value itself", construct="filter-run-forward")
        fills = [c for c in ast.walk(iff) if isinstance(c, ast.Call) and isinstance(c.func, ast.Attribute) and c.func.attr == "fill"]
        okf = len(fills) == 1 and A.src(fills[0]) == "%s.fill(%s)" % (ps[0], ps[1]) and fills[0] in [n for s in iff.body for n in ast.walk(s)] and not iff.orelse
        ctx.check("C05-d", okf, iff, "Filter.fill_into does not fill exactly the selected value itself (%s)" % "; ".join(A.src(c) for c in fills),
                  detail="Filter.fill_into fills the value itself, only when selected", construct="filter-fill-forward")
    # Count.fill_into
    fn = ctx.tree.func("lena.flow.elements", "Count.fill_into")
    ps = [p for p in A.func_params(fn) if p != "self"]
    n = 0
    for p in P.paths_of(fn):
        if p.end == "raise":
            continue
        n += 1
        incs, other = updates_of(p, "self.count")
        fills = [c for _, c in p.calls() if isinstance(c.func, ast.Attribute) and c.func.attr == "fill" and A.src(c.func.value) == ps[0]]
        ok = len(incs) == 1 and is_plus_one(incs[0]) and not other and len(fills) == 1
        ctx.check("C05-d", ok, fn, "Count.fill_into counts %d time(s) and fills %d time(s) per value [%s]; run counts every value once "
                  "and passes every value on" % (len(incs), len(fills), p.describe(3)), detail="Count.fill_into: count += 1 once, fill once",
                  construct="count-fill-into", path=p)
    run = ctx.tree.func("lena.flow.elements", "Count.run")
    def updates(f):
        """update(...) calls of f, the context unpacked from get_data_context(...) written `<context>` whatever f calls it."""
        m = {}
        for st in A.walk_local(f):
            if isinstance(st, ast.Assign) and len(st.targets) == 1 and isinstance(st.targets[0], ast.Tuple) and len(st.targets[0].elts) == 2 \
                    and isinstance(st.value, ast.Call) and A.call_name(st.value) == "get_data_context" and isinstance(st.targets[0].elts[1], ast.Name):
                m[st.targets[0].elts[1].id] = "<context>"
        return [A.src_with(c, m) for c in A.walk_local(f) if isinstance(c, ast.Call) and isinstance(c.func, ast.Attribute) and c.func.attr == "update"]
    u1, u2 = updates(fn), updates(run)
    ctx.check("C05-d", u1 == u2 and len(u1) == 1, fn, "Count.run adds %s to the context, Count.fill_into adds %s" % (u2, u1),
              detail="Count: run and fill_into add {self.name: self.count}", construct="count-context")
    # Slice.fill_into
    fn = ctx.tree.func("lena.flow.iterators", "Slice.fill_into")
    ps = [p for p in A.func_params(fn) if p != "self"]
    n = 0
    for p in P.paths_of(fn):
        fills = [c for _, c in p.calls() if isinstance(c.func, ast.Attribute) and c.func.attr == "fill" and A.src(c.func.value) == ps[0]]
        incs, other = updates_of(p, "self._index")
        if p.end == "raise":
            r = [s for s in p.stmts() if isinstance(s, ast.Raise)][-1]
            in_stop = any(e[0] == "exc" and e[1].type is not None and ctx.res.canon(e[1].type) == "builtins.StopIteration" for e in p.ev)
            ex = r.exc.func if isinstance(r.exc, ast.Call) else r.exc
            ctx.check("C05-d", in_stop and ex is not None and ctx.res.canon(ex) == "lena.core.exceptions.LenaStopFill" and not fills, r,
                      "Slice.fill_into raises `%s` outside the handler of the exhausted index iterator (or after filling)" % A.short(r, 40),
                      detail="LenaStopFill only when the index iterator is exhausted", construct="slice-stop", path=p)
            continue
        n += 1
        sel = A.norm_src(ast.parse("self._index == self._next_index").body[0].value) in K.lit_srcs(p, {}, norm=True)
        ok = len(incs) == 1 and is_plus_one(incs[0]) and not other and len(fills) == (1 if sel else 0)
        if fills:
            ok = ok and A.src(fills[0]) == "%s.fill(%s)" % (ps[0], ps[1])
        ctx.check("C05-d", ok, fn, "Slice.fill_into on path [%s]: %d fill(s), index advanced %d time(s); a value is filled exactly when "
                  "its index is the selected one and the index advances once per value" % (p.describe(3), len(fills), len(incs)),
                  detail="Slice.fill_into [%s]: fill iff selected, _index += 1 once" % p.describe(2), construct="slice-fill:%s" % pkey(fn, p), path=p)
    ctx.instances_floor("C05-d/slice", n, 3, "normal paths of Slice.fill_into")


# -- C05-f ---------------------------------------------------------------------------------
def check_seq_split(ctx, modname, qual, pred_src, is_helper=False):
    """Returns the name of the local that holds the accumulator found (None if it could not be identified)."""
    fn = ctx.tree.func(modname, qual)
    name = qual.split(".")[0]
    loops = [l for l in fn.body if isinstance(l, ast.For)]
    if not ctx.require(len(loops) == 2, "C05-f", fn, "%s: expected the search loop and the `after` loop" % qual):
        return None
    search, rest = loops
    okit = isinstance(search.iter, ast.Call) and A.call_name(search.iter) == "enumerate" and isinstance(search.target, ast.Tuple) \
        and len(search.target.elts) == 2 and len(search.iter.args) == 1
    if not ctx.require(okit, "C05-f", search, "%s: the search loop is not `for ind, el in enumerate(<elements>)`" % qual):
        return None
    base = A.src(search.iter.args[0])
    ind, el = [A.src(e) for e in search.target.elts]
    # The locals are identified by the role they play, not by what the code calls them:
    #   before -- the list the search loop appends the pre-processing elements to
    #   after  -- the list the second loop appends to
    #   acc    -- the local the search loop stores the element found in
    def appended_to(loop):
        return one(set(c.func.value.id for c in A.walk_body(loop.body) if isinstance(c, ast.Call) and isinstance(c.func, ast.Attribute)
                       and c.func.attr == "append" and isinstance(c.func.value, ast.Name)))
    before, after = appended_to(search), appended_to(rest)
    acc = one(set(st.targets[0].id for st in A.walk_body(search.body) if isinstance(st, ast.Assign) and len(st.targets) == 1
                  and isinstance(st.targets[0], ast.Name) and A.src(st.value) == el))
    m = local_map(fn, {"before": before, "after": after, "acc": acc})
    N = lambda node: A.src_with(node, m)
    n = 0
    for q in P.loop_body_paths(search):
        lits = q.literal_srcs()
        apps = [N(c) for _, c in q.calls() if isinstance(c.func, ast.Attribute) and c.func.attr == "append"]
        found = pred_src % el in lits
        notfound = "not " + (pred_src % el) in lits
        n += 1
        if notfound:
            ok = apps == ["before.append(%s)" % el] and q.end in ("fall", "continue")
            ctx.check("C05-f", ok, search, "%s: an element before the first accumulator is not appended to the list of pre-processing "
                      "elements exactly once [%s]" % (qual, q.describe(3)),
                      detail="%s: pre-processing elements go to `before` in order" % name, construct="seq-before:%s" % name, path=q)
        elif found:
            ok = not apps and q.end == "break"
            ctx.check("C05-f", ok, search, "%s: the search does not stop at the *first* accumulator [%s]" % (qual, q.describe(3)),
                      detail="%s: stops at the first accumulator" % name, construct="seq-first:%s" % name, path=q)
        else:
            ctx.unknown("C05-f", search, "%s: search loop path [%s] does not test the element kind" % (qual, q.describe(3)))
    want = "%s[%s + 1:]" % (base, ind)
    if A.src(rest.iter) == want:
        ctx.ok("C05-f", rest, "%s: `after` = the elements following the accumulator" % name)
    elif A.src(rest.iter).startswith(base):
        ctx.violation("C05-f", rest, "%s builds `after` from `%s`, not from the elements following the accumulator (%s): the accumulator "
                      "itself or an element would be applied twice / lost" % (qual, A.src(rest.iter), want), construct="seq-after-iter:%s" % name)
    else:
        ctx.unknown("C05-f", rest, "%s: `after` loop iterates `%s`" % (qual, A.src(rest.iter)))
    rbody = real(rest.body)
    body_ok = after is not None and len(rbody) == 1 and N(rbody[0]) == "after.append(%s)" % A.src(rest.target)
    if ctx.require(body_ok, "C05-f", rest, "%s: unrecognised body of the `after` loop" % qual):
        ctx.ok("C05-f", rest, "%s: after.append(el) in order" % name)
    asg = {}
    order = []
    for s in fn.body:
        if isinstance(s, ast.Assign) and len(s.targets) == 1:
            asg[A.src(s.targets[0])] = s.value
        for c in ast.walk(s):
            if isinstance(c, ast.Call) and isinstance(c.func, ast.Attribute) and c.func.attr == "append" and N(c.func.value) == "before" \
                    and not any(a is search for a in A.ancestors(c)):
                order.append(N(c))
    show = lambda k: A.src(asg[k]) if k in asg else None
    if ctx.require(before is not None and acc is not None, "C05-f", fn, "%s: the list of pre-processing elements / the local holding the "
                   "accumulator found could not be identified" % qual):
        ctx.check("C05-f", order == ["before.append(acc)"], fn, "%s: the accumulator is not appended to the pre-processing elements (once, after "
                  "them): %s" % (qual, order), detail="%s: before = pre-processing + [accumulator]" % name, construct="seq-before-acc:%s" % name)
        # self._fill_seq may be given the FillSeq directly or through a local defined once (also inside a try block)
        fs = asg.get("self._fill_seq")
        fs = N(inline(fn, fs)) if fs is not None else None
        ctx.check("C05-f", fs == "FillSeq(*before)" and show("self.fill") == "self._fill_seq.fill", fn,
                  "%s does not fill through FillSeq(*<pre-processing elements + accumulator>) (%s)" % (
                      qual, dict((k, show(k)) for k in ("self._fill_seq", "self.fill"))),
                  detail="%s: fill = FillSeq(*before).fill" % name, construct="seq-fillseq:%s" % name)
    if ctx.require(after is not None, "C05-f", fn, "%s: the list of post-processing elements could not be identified" % qual):
        af = asg.get("self._after")
        af = N(inline(fn, af)) if af is not None else None
        ctx.check("C05-f", af == "sequence.Sequence(*after)", fn, "%s: _after is `%s`, not Sequence(*<elements after the accumulator>)" % (qual, show("self._after")),
                  detail="%s: _after = Sequence(*after)" % name, construct="seq-after:%s" % name)
    return acc


def check_seqs(ctx):
    acc = check_seq_split(ctx, "lena.core.fill_compute_seq", "FillComputeSeq.__init__", "check_sequence_type.is_fill_compute_el(%s)")
    check_seq_split(ctx, "lena.core.fill_compute_seq", "_init_sequence_with_el", "check_el_type(%s)", is_helper=True)
    init = ctx.tree.func("lena.core.fill_compute_seq", "FillComputeSeq.__init__")
    asg = {A.src(s.targets[0]): A.src(s.value) for s in init.body if isinstance(s, ast.Assign) and len(s.targets) == 1}
    if ctx.require(acc is not None, "C05-f", init, "FillComputeSeq.__init__: the local holding the accumulator found could not be identified"):
        ctx.check("C05-f", asg.get("self._fill_compute") == acc, init, "FillComputeSeq._fill_compute is `%s`, not the accumulator found" % asg.get("self._fill_compute"),
                  detail="_fill_compute = the first FillCompute element", construct="fc-el")
    # FillRequestSeq wires the helper with the fill_request predicate
    frs = ctx.tree.func("lena.core.fill_request_seq", "FillRequestSeq.__init__")
    calls = [c for c in A.walk_local(frs) if isinstance(c, ast.Call) and A.call_name(c) == "_init_sequence_with_el"]
    ok = len(calls) == 1 and len(calls[0].args) >= 4 and A.src(calls[0].args[0]) == "self" and A.src(calls[0].args[2]).strip("'\"") == "_fill_request" \
        and ctx.res.canon(calls[0].args[3]) == "lena.core.check_sequence_type.is_fill_request_el"
    ctx.check("C05-f", ok, frs, "FillRequestSeq.__init__ does not split its elements at the first FillRequest element into "
              "self._fill_request", detail="FillRequestSeq: _init_sequence_with_el(self, args, '_fill_request', is_fill_request_el)", construct="frs-init")
    # compute / request post-process the accumulator's results
    for modname, qual, inner, after in (("lena.core.fill_compute_seq", "FillComputeSeq.compute", "self._fill_compute.compute()", "self._after.run(%s)"),
                                        ("lena.core.fill_request_seq", "FillRequestSeq.request", "self._fill_request.request()", "self._after.run(%s)")):
        fn = ctx.tree.func(modname, qual)
        for p in P.paths_of(fn):
            if p.end == "raise":
                continue
            rets = [s for s in p.stmts() if isinstance(s, ast.Return)]
            if not rets or rets[0].value is None:
                ctx.violation("C05-f", fn, "%s returns nothing on path [%s]" % (qual, p.describe(3)), construct="seq-result-none:%s" % qual, path=p)
                continue
            # inline locals
            def expand(e, depth=0):
                if isinstance(e, ast.Name) and depth < 4:
                    rv = resolve_local(p, e.id, len(p.ev))
                    if rv is not None:
                        return expand(rv, depth + 1)
                if isinstance(e, ast.Call) and depth < 4 and len(e.args) == 1 and isinstance(e.args[0], ast.Name):
                    rv = resolve_local(p, e.args[0].id, len(p.ev))
                    if rv is not None:
                        return A.src(e.func) + "(" + expand(rv, depth + 1) + ")"
                return A.src(e)
            got = expand(rets[0].value)
            lits = p.literal_srcs()
            want = after % inner
            if "not self._after" in lits:
                want = inner
                if qual == "FillComputeSeq.compute":
                    # compute() of a user's accumulator may return any iterable (a list); consumers of a sequence's results
                    # (SplitIntoBins zips the cells with next()) rely on the iterator Sequence.run makes of it.  FillRequest.request
                    # is lena's own generator, hence the difference
                    if got in ("iter(%s)" % inner, "flow_to_iter(%s)" % inner, "functions.flow_to_iter(%s)" % inner, after % inner):
                        want = got
                    else:
                        ctx.violation("C05-f", rets[0], "FillComputeSeq.compute hands out `%s` as it is when there are no post-processing "
                                      "elements [%s]: a fill/compute element whose compute() returns a list (legal: every run element "
                                      "iterates it) makes the sequence return a list, and SplitIntoBins.compute, which takes the "
                                      "results of its cells with next(), raises TypeError where a private copy of the sequence "
                                      "works; self._after.run(...) (an empty Sequence) is what turns it into an iterator"
                                      % (got, p.describe(3)), construct="fc-seq-result-not-iterator", path=p)
                        continue
            ctx.check("C05-f", got == want, rets[0], "%s returns `%s` on path [%s]; expected %s: the results of the accumulator must pass "
                      "through every post-processing element" % (qual, got, p.describe(3), want), detail="%s returns %s" % (qual, want),
                      construct="seq-result:%s:%s" % (qual, pkey(fn, p)), path=p)


def check_stop_signal(ctx):
    """C05-g.  Driven by fill, a chain ends when an element raises LenaStopFill; the signal must reach the driver."""
    hits = K.swallowed_stop_fill(ctx.tree, ctx.res, allowed=(("lena.core.split", "Split.run"),))
    for mod, fn, tr, h, c in hits:
        ctx.violation("C05-g", tr, "%s fills another element (`%s`) inside a try whose handler `except %s` does not re-raise: LenaStopFill "
                      "-- the stop signal of the fill protocol -- raised by the filled element ends there, the driver (Split.run) never "
                      "learns that the branch has finished and goes on filling it, which the same chain driven by run would not do" % (
                          A.qualname(fn), A.short(c, 40), A.src(h.type) if h.type is not None else ""),
                      construct="swallowed-stop-fill:%s" % A.qualname(fn))
    fillers = [(m, f) for m, f in ctx.tree.functions() if any(
        isinstance(c, ast.Call) and isinstance(c.func, ast.Attribute) and c.func.attr in ("fill", "fill_into") for c in A.walk_local(f))]
    ctx.instances_floor("C05-g", len(fillers), 15, "functions that fill another element")
    if not hits:
        ctx.ok("C05-g", ("lena", "<tree>"), "%d functions fill another element: none but Split.run keeps LenaStopFill" % len(fillers))


def check(ctx):
    check_stop_signal(ctx)
    check_adapters(ctx)
    check_wrappers(ctx)
    check_can_break_flow(ctx)
    check_agree(ctx)
    check_seqs(ctx)


ADP = "lena/core/adapters.py"
VARIANTS = [
    M("runfillinto-keeps-stop", "lena/core/adapters.py", "        for result in self._el.run([value]):\n            element.fill(result)", "        try:\n            for result in self._el.run([value]):\n                element.fill(result)\n        except exceptions.LenaStopFill:\n            pass", ["C05-g"]),
    M("fill-keeps-exception", "lena/core/fill_seq.py", "        self._fill_into_el.fill_into(self._fill_el, value)", "        try:\n            self._fill_into_el.fill_into(self._fill_el, value)\n        except exceptions.LenaException:\n            return", ["C05-g"]),
    M("runfillinto-next-only", "lena/core/adapters.py", "        for result in self._el.run([value]):\n            element.fill(result)", "        results = iter(self._el.run([value]))\n        try:\n            result = next(results)\n        except StopIteration:\n            return\n        element.fill(result)", ["C05-b"]),
    M("fc-seq-compute-skips-empty-after", "lena/core/fill_compute_seq.py", "        results = self._after.run(flow)\n", "        if self._after:\n            results = self._after.run(flow)\n        else:\n            results = flow\n", ["C05-f"]),
    M("call-run-returns-map", "lena/core/adapters.py", "        for val in flow:\n            yield self._el(val)\n", "        return map(self._el, flow)\n", ["C05-b"]),
    M("run-binds-generator-function", "lena/core/adapters.py", "            elif callable(el):\n                # Call to Run\n                self.run = self._call_run", "            elif callable(el):\n                if inspect.isgeneratorfunction(el):\n                    self.run = el\n                else:\n                    self.run = self._call_run", ["C05-a"]),
    M("fillcompute-stub-left", ADP, "        if callable(fill_method):\n            self.fill = fill_method\n        else:", "        if callable(fill_method):\n            pass\n        else:", ["C05-a"]),
    M("fillcompute-wrong-name", ADP, "        fill_method = getattr(el, fill, None)\n        compute_method = getattr(el, compute, None)", "        fill_method = getattr(el, fill, None)\n        compute_method = getattr(el, fill, None)", ["C05-a"]),
    M("initcallable-ignores-name", ADP, "    if call is _SENTINEL:\n        # try to find call in el\n        if callable(el):\n            self._call = el  # pylint: disable=protected-access\n        else:\n            raise exceptions.LenaTypeError(\n                \"provide a callable method or a callable element, \"\n                \"{} given\".format(el)\n            )\n    else:",
      "    if callable(el):\n        self._call = el\n    elif call is _SENTINEL:\n        raise exceptions.LenaTypeError(\n            \"provide a callable method or a callable element, \"\n            \"{} given\".format(el)\n        )\n    else:", ["C05-a"]),
    M("fillcompute-const-name", ADP, "        fill_method = getattr(el, fill, None)\n        compute_method", "        fill_method = getattr(el, \"fill\", None)\n        compute_method", ["C05-a"]),
    M("run-ignores-name", ADP, "            elif callable(getattr(el, run, None)):\n                self.run = getattr(el, run)", "            elif callable(getattr(el, run, None)):\n                self.run = getattr(el, \"run\")", ["C05-a"]),
    M("fillinto-no-can-break", ADP, "            elif ct.is_run_el(el) and hasattr(el, \"_can_break_flow\"):", "            elif ct.is_run_el(el):", ["C05-a"]),
    M("adapter-typeerror", ADP, "        else:\n            raise exceptions.LenaTypeError(\n                \"fill method {} must exist and be callable\".format(fill)", "        else:\n            raise TypeError(\n                \"fill method {} must exist and be callable\".format(fill)", ["C05-a"]),
    M("fillrequest-unchecked-request", ADP, "        el_request = getattr(el, request, None)\n        if callable(el_request):", "        el_request = getattr(el, request, None)\n        if el_request is not None:", ["C05-a"]),
    M("fcrun-compute-in-loop", ADP, "        for arg in flow:\n            self._el.fill(arg)\n        results = self._el.compute()", "        for arg in flow:\n            self._el.fill(arg)\n            results = self._el.compute()", ["C05-b"]),
    M("callrun-twice", ADP, "        for val in flow:\n            yield self._el(val)\n", "        for val in flow:\n            yield self._el(val)\n            yield self._el(val)\n", ["C05-b"]),
    M("callrun-skip-none", ADP, "        for val in flow:\n            yield self._el(val)\n", "        for val in flow:\n            res = self._el(val)\n            if res is not None:\n                yield res\n", ["C05-b"]),
    M("fillinto-raw-value", ADP, "        element.fill(self._el(value))", "        element.fill(value)", ["C05-b"]),
    M("runfillinto-first-only", ADP, "        for result in self._el.run([value]):\n            element.fill(result)", "        for result in self._el.run([value]):\n            element.fill(result)\n            break", ["C05-b"]),
    M("fill-forward-swapped", "lena/core/fill_seq.py", "        self._fill_into_el.fill_into(self._fill_el, value)", "        self._fill_into_el.fill_into(self._fill_into_el, value)", ["C05-b"]),
    M("fillseq-not-reversed", "lena/core/fill_seq.py", "        for el in reversed(seq[:-1]):", "        for el in seq[:-1]:", ["C05-b"]),
    M("fillseq-skips-conversion", "lena/core/fill_seq.py", "        for el in self._data_seq[:-1]:\n            if hasattr(el, \"fill_into\") and callable(el.fill_into):", "        for el in self._data_seq[:-1]:\n            if hasattr(el, \"fill_into\") or callable(el):", ["C05-b"]),
    M("runif-stateful", "lena/flow/elements.py", "        for val in flow:\n            if self._select(val):\n                for result in self._seq.run([val]):", "        for val in flow:\n            self._last = val\n            if self._select(val):\n                for result in self._seq.run([val]):", ["C05-c"]),
    M("runif-trailer", "lena/flow/elements.py", "            else:\n                yield val\n\n\nclass RunningChunkBy", "            else:\n                yield val\n        yield None\n\n\nclass RunningChunkBy", ["C05-c"]),
    M("filter-fill-negated", "lena/flow/filter.py", "        if self._selector(value):\n            element.fill(value)", "        if not self._selector(value):\n            element.fill(value)", ["C05-d"]),
    M("filter-fill-data-only", "lena/flow/filter.py", "        if self._selector(value):\n            element.fill(value)", "        if self._selector(value):\n            element.fill(value[0])", ["C05-d"]),
    M("count-fill-twice", "lena/flow/elements.py", "        self.count += 1\n        data, context = lena.flow.get_data_context(value)", "        self.count += 2\n        data, context = lena.flow.get_data_context(value)", ["C05-d"]),
    M("slice-fill-index-stuck", "lena/flow/iterators.py", "        if self._index == self._next_index:\n            element.fill(value)\n        self._index += 1", "        if self._index == self._next_index:\n            element.fill(value)\n            self._index += 1", ["C05-d"]),
    M("fcs-after-includes-acc", "lena/core/fill_compute_seq.py", "        for el in seq[ind+1:]:\n            after.append(el)", "        for el in seq[ind:]:\n            after.append(el)", ["C05-f"]),
    M("fcs-compute-skips-after", "lena/core/fill_compute_seq.py", "        results = self._after.run(flow)\n        return results", "        results = self._after.run(flow)\n        return flow", ["C05-f"]),
    M("fcs-last-accumulator", "lena/core/fill_compute_seq.py", "            else:\n                fc_el = el\n                break", "            else:\n                fc_el = el", ["C05-f"]),
    TW("callrun-local", ADP, "        for val in flow:\n            yield self._el(val)\n", "        el = self._el\n        for val in flow:\n            res = el(val)\n            yield res\n"),
    TW("filter-run-loop", "lena/flow/filter.py", "        return (val for val in flow if self._selector(val))", "        for val in flow:\n            if self._selector(val):\n                yield val"),
    TW("fcrun-direct-return", ADP, "        results = self._el.compute()\n        return results", "        return self._el.compute()"),
]
