"""C03 -- Split.run follows its documented block/branch schedule for every branch mix."""
import ast

from .. import astutil as A
from .. import paths as P
from ..loader import methods
from ..selftest.runner import M, TW, V
from . import common as K

PROPERTY = "C03"
EXPLANATION = (
    "Dispatch-protocol analysis of Split (and Zip).  Decided on every enumerated path: (a) AGREE/kinds -- the kind "
    "strings the classifier _get_seq_with_type produces are exactly the kinds handled in the block loop of "
    "Split.run and in its final pass (a string compared with seq_type that the classifier never produces, or a "
    "produced kind without a branch, is reported), each classifier test yields the kind of the class it tests and "
    "converts to that class, and the common-type tables of Split.__init__ / Zip.__init__ stay inside the kinds and "
    "bind the methods of that kind; (b) AGREE/protocol -- under `seq_type == k` only the methods of kind k are "
    "called on the branch, and the documented ones are: source called then dropped, fill_compute filled per value "
    "and computed only when stopped or in the final pass (exactly once, unguarded), fill_request filled then "
    "request() exactly once per block, sequence run(buf) once per block; (c) GUARD -- every fill in Split.run is "
    "enclosed by `except LenaStopFill`, whose path finalises (compute/request) and drops the branch; (d) PAIR -- a "
    "drop deletes index ind from both parallel lists, decrements the count and does not advance ind, every other "
    "path advances ind exactly once, nothing else mutates the lists, they are copies of the constructor's lists, ind "
    "restarts at 0 in every block; (e) empty flow -- source/fill_request/sequence invocations of the final pass are "
    "guarded by flow_was_empty, which is cleared only for a non-empty block; (f) an empty Split installs the "
    "identity _empty_run; (g) Zip._yield pulls every branch once per round in list order and a StopIteration "
    "leaves the loop without yielding the partial tuple; every sequence class the classifier knows has its own isinstance test and no "
    "duck-typing test is reached before all of them have failed; the sequence predicates is_fill_compute_seq / is_fill_request_seq ask of an "
    "element exactly what the element predicate asks (any(map(pred, seq)) or the equivalent generator, no extra conjunct or filter), "
    "and the common-type methods _compute/_request/__call__ start a branch only when it is reached (no list of started branches); in lena.core a local that is None until an element is found is tested with `is None`, never by its truth value; the classifier hands its nullable bufsize to a constructor only on paths that excluded None.  Does not decide the concrete output order/values nor "
    "bufsize-independence of results.")
RULES = {
    "C03-h": "NONE IS A BUFSIZE: Split documents bufsize=None (the whole flow) and Zip calls the classifier without one; the classifier "
             "hands its bufsize to a constructor that demands a natural number only where it is known not to be None",
    "C03-a": "AGREE: classifier kinds = kinds dispatched in the block loop = kinds of the final pass; common-type tables within the kinds",
    "C03-b": "AGREE: per kind only its protocol methods are called, the documented ones exactly as documented",
    "C03-c": "GUARD: fill is enclosed by except LenaStopFill; a stopped branch is finalised and dropped",
    "C03-d": "PAIR: parallel lists are changed together; ind advances exactly once unless a branch was dropped",
    "C03-e": "empty flow: every branch kind is still invoked once; flow_was_empty cleared only by a non-empty block",
    "C03-f": "an empty Split is the identity",
    "C03-g": "Zip._yield: one next() per branch per round in order; stops at the shortest without a partial tuple",
}
SPLIT = "lena.core.split"
ZIP = "lena.flow.zip"
LSF = "lena.core.exceptions.LenaStopFill"
CAPS = {"source": {"__call__"}, "fill_compute": {"fill", "compute"}, "fill_request": {"fill", "request"}, "sequence": {"run"}}
CLASS_KIND = {
    "lena.core.source.Source": "source",
    "lena.core.fill_compute_seq.FillComputeSeq": "fill_compute",
    "lena.core.fill_request_seq.FillRequestSeq": "fill_request",
    "lena.core.sequence.Sequence": "sequence",
}
PRED_KIND = {
    "lena.core.check_sequence_type.is_fill_compute_seq": ("fill_compute", "lena.core.fill_compute_seq.FillComputeSeq"),
    "lena.core.check_sequence_type.is_fill_request_seq": ("fill_request", "lena.core.fill_request_seq.FillRequestSeq"),
}


class Ren(object):
    """actual local name -> canonical name.  Keys of findings (construct=) and details are written with the
    canonical names and in the canonical spelling of A.norm_src (`0 == n` reads `n == 0`, `x = x + 1` reads `x += 1`),
    so that they do not depend on how the analysed code happens to name its locals or spell a comparison: the names
    the rules derive structurally get their documented name (seq_type, active_seqs, ...), every other
    non-parameter local of *fn* is numbered in the order of its first binding (L1, L2, ...)."""

    def __init__(self, fn=None, known=None):
        self.map = {}
        for actual, canon in (known or {}).items():
            if actual:
                self.map[actual] = canon
        if fn is not None:
            params = set(A.func_params(fn))
            k = 0
            for n in A.walk_local(fn):
                name = None
                if isinstance(n, ast.Name) and isinstance(n.ctx, (ast.Store, ast.Del)):
                    name = n.id
                elif isinstance(n, ast.ExceptHandler) and n.name:
                    name = n.name
                if name and name not in params and name not in self.map:
                    k += 1
                    self.map[name] = "L%d" % k
        self._cache = {}

    def also(self, known):
        r = Ren(None, self.map)
        for actual, canon in known.items():
            if actual:
                r.map[actual] = canon
        return r

    def src(self, node):
        hit = self._cache.get(id(node))
        if hit is None or hit[0] is not node:
            hit = (node, A.norm_src(node, self.map))
            self._cache[id(node)] = hit
        return hit[1]

    def short(self, node, n=110):
        s = " ".join(self.src(node).split())
        return s if len(s) <= n else s[: n - 3] + "..."

    def lits(self, p):
        """p.literal_srcs() with canonical names, in canonical spelling."""
        out = []
        for t, pol in p.literals():
            s = self.src(t)
            if not pol:
                s = "not (%s)" % s if isinstance(t, (ast.BoolOp, ast.Compare, ast.IfExp)) else "not " + s
            out.append(s)
        return out

    def describe(self, p, limit=8):
        """p.describe() with canonical names, in canonical spelling."""
        conds = self.lits(p)
        excs = [A.short(e[1].type, 40) if e[1].type is not None else "BaseException" for e in p.ev if e[0] == "exc"]
        s = " and ".join(conds[-limit:]) if conds else "(unconditional)"
        if excs:
            s += " [in handler of %s]" % ", ".join(excs)
        return s


def nlits(p):
    """p.literal_srcs() in the canonical spelling of A.norm_src (orientation of comparisons does not matter)."""
    return K.lit_srcs(p, None, norm=True)


def step_of(st, name):
    """How statement *st* changes the integer local *name*: None -- it does not store it; an int -- it adds that
    constant (`name += c`, `name -= c`, `name = name + c`, `name = c + name`, ...); '?' -- it stores something else."""
    aug = A.as_augassign(st) if isinstance(st, ast.AugAssign) else None
    if aug is not None:
        if A.src(aug[0]) != name:
            return None
        c = A.int_const(aug[2])
        if c is not None and isinstance(aug[1], ast.Add):
            return c
        if c is not None and isinstance(aug[1], ast.Sub):
            return -c
        return "?"
    if isinstance(st, ast.Assign) and any(name in A.target_names(t) for t in st.targets):
        if len(st.targets) == 1 and isinstance(st.targets[0], ast.Name):
            lin = K.linear(st.value)
            if lin is not None and lin[0] == {name: 1}:
                return lin[1]
        return "?"
    return None


def steps_on(p, name):
    return [d for d in (step_of(s, name) for s in p.stmts()) if d is not None]


def deref(p, node):
    """A Name read at the end of path *p* stands for the value of its last plain assignment on the path
    (`_ret = f(...); return _ret`); anything else stands for itself."""
    seen = 0
    while isinstance(node, ast.Name) and seen < 5:
        seen += 1
        defs = [s for s in p.stmts() if isinstance(s, ast.Assign) and len(s.targets) == 1 and isinstance(s.targets[0], ast.Name)
                and s.targets[0].id == node.id]
        if not defs:
            break
        node = defs[-1].value
    return node


def fn_deref(fn, node):
    """A Name that has exactly one plain definition in *fn* (and is not a parameter) stands for that definition."""
    if isinstance(node, ast.Name) and node.id not in A.func_params(fn):
        v = A.single_def(fn, node.id)
        if v is not None:
            return v
    return node


def is_empty_list(node):
    return (isinstance(node, ast.List) and not node.elts) or (
        isinstance(node, ast.Call) and isinstance(node.func, ast.Name) and node.func.id == "list" and not node.args and not node.keywords)


def popped_kind(fn):
    """(kind variable, set variable) of a constructor that takes the common kind out of the set of kinds:
    `S = set(<kinds>)` ... `k = S.pop()`.  (None, None) when there is not exactly one such pair."""
    found = []
    for st in A.walk_local(fn):
        if isinstance(st, ast.Assign) and len(st.targets) == 1 and isinstance(st.targets[0], ast.Name) \
                and isinstance(st.value, ast.Call) and isinstance(st.value.func, ast.Attribute) and st.value.func.attr == "pop" \
                and not st.value.args and isinstance(st.value.func.value, ast.Name):
            sname = st.value.func.value.id
            sdef = A.single_def(fn, sname)
            if isinstance(sdef, ast.Call) and isinstance(sdef.func, ast.Name) and sdef.func.id == "set" and len(sdef.args) == 1:
                found.append((st.targets[0].id, sname))
    if len(set(found)) == 1:
        return found[0]
    return None, None


def kind_literal(expr, var="seq_type"):
    """'k' if expr is `seq_type == 'k'`."""
    if isinstance(expr, ast.Compare) and len(expr.ops) == 1 and isinstance(expr.ops[0], ast.Eq):
        l, r = expr.left, expr.comparators[0]
        if isinstance(l, ast.Name) and l.id == var and isinstance(r, ast.Constant) and isinstance(r.value, str):
            return r.value
        if isinstance(r, ast.Name) and r.id == var and isinstance(l, ast.Constant) and isinstance(l.value, str):
            return l.value
    return None


def kinds_compared(nodes, var="seq_type"):
    out = {}
    for top in nodes:
        for n in ast.walk(top):
            k = kind_literal(n, var)
            if k is not None:
                out.setdefault(k, n)
            elif isinstance(n, ast.Compare) and any(isinstance(x, ast.Name) and x.id == var for x in [n.left] + n.comparators):
                # other comparison forms with the kind variable (in / !=): collect the strings
                for c in ast.walk(n):
                    if isinstance(c, ast.Constant) and isinstance(c.value, str):
                        out.setdefault(c.value, n)
    return out


def path_kind(p, var="seq_type"):
    for t, pol in p.literals():
        k = kind_literal(t, var)
        if k is not None and pol:
            return k
    return None


def calls_on(p, var):
    """[(event index, attr or '__call__', Call)] for calls on the branch object along path p."""
    out = []
    for i, c in p.calls():
        f = c.func
        if isinstance(f, ast.Name) and f.id == var:
            out.append((i, "__call__", c))
        elif isinstance(f, ast.Attribute) and isinstance(f.value, ast.Name) and f.value.id == var:
            out.append((i, f.attr, c))
    return out


def dels_on(p, listname):
    out = []
    for i, e in enumerate(p.ev):
        if e[0] == "stmt" and isinstance(e[1], ast.Delete):
            for t in e[1].targets:
                if isinstance(t, ast.Subscript) and A.src(t.value) == listname:
                    out.append((i, t))
    return out


def yields_all_results(ctx, rule, call, where, what, construct, path=None):
    """The results of *call* are handed downstream one by one, unchanged and in order:
    `for r in call: yield r` or `yield from call`.  Another recognisable use is a
    violation, an unrecognised one UNKNOWN."""
    par = A.parent(call)
    if isinstance(par, ast.YieldFrom):
        ctx.ok(rule, call, "%s: results of %s are yielded unchanged, in order" % (where, what))
        return
    if isinstance(par, ast.For) and par.iter is call:
        tgt = A.src(par.target)
        bad = None
        for q in P.loop_body_paths(par):
            ys = q.yields()
            good = len(ys) == 1 and isinstance(ys[0][1], ast.Yield) and ys[0][1].value is not None \
                and A.src(ys[0][1].value) == tgt and q.end in ("fall", "continue")
            if not good:
                bad = q
        if par.orelse:
            bad = bad or P.Path()
        if bad is None:
            ctx.ok(rule, call, "%s: results of %s are yielded unchanged, in order" % (where, what))
        else:
            ctx.violation(rule, call, "%s does not yield every result of `%s` exactly once and as it is (path [%s] of the result loop)" % (
                where, A.short(call, 40), bad.describe(3)), construct=construct, path=path)
        return
    ctx.unknown(rule, call, "%s: the results of `%s` are used in a way the analyser does not recognise" % (where, A.short(call, 40)))


def branch_iteration(ctx, rule, loop, base, where, construct):
    """for x in <base>: forwards over the whole list -> True; reversed/sorted/sliced -> violation; else UNKNOWN."""
    order = K.iter_order(loop.iter, base)
    if order == "forward":
        ctx.ok(rule, loop, "%s iterates %s in list order" % (where, base))
        return True
    if order == "wrong":
        ctx.violation(rule, loop, "%s iterates `%s`, not %s in list order: branches are visited in the wrong order or some are skipped" % (
            where, A.short(loop.iter, 50), base), construct=construct)
        return False
    ctx.unknown(rule, loop, "%s iterates `%s`, which the analyser cannot relate to %s" % (where, A.short(loop.iter, 50), base))
    return False


def split_loops(ctx, fn):
    outer = [s for s in fn.body if isinstance(s, ast.While)]
    if not ctx.require(len(outer) == 1, "C03-b", fn, "Split.run: expected one top-level block loop"):
        return None, None
    inner = [s for s in outer[0].body if isinstance(s, ast.While)]
    if not ctx.require(len(inner) == 1, "C03-b", fn, "Split.run: expected one loop over the active branches inside the block loop"):
        return None, None
    return outer[0], inner[0]


class Names(object):
    """Local names of Split.run, derived from its structure (not assumed)."""


def derive_names(ctx, fn, outer, inner):
    N = Names()
    rule = "C03-b"
    top = [s for s in fn.body if isinstance(s, ast.Assign) and len(s.targets) == 1 and isinstance(s.targets[0], ast.Name)]
    def one(pred, what):
        xs = [s for s in top if pred(s)]
        if not ctx.require(len(xs) == 1, rule, fn, "Split.run: cannot identify %s (%d candidates)" % (what, len(xs))):
            return None
        return xs[0].targets[0].id
    has_attr = lambda s, attr: any(A.is_self_attr(a, attr) for a in ast.walk(s.value))
    N.seqs = one(lambda s: has_attr(s, "_seqs"), "the list of active branches (initialised from self._seqs)")
    N.types = one(lambda s: has_attr(s, "_seq_types"), "the list of their kinds (initialised from self._seq_types)")
    if N.seqs is None or N.types is None:
        return None
    N.count = one(lambda s: isinstance(s.value, ast.Call) and A.call_name(s.value) == "len" and A.names_loaded(s.value) & {N.seqs, N.types},
                  "the number of active branches")
    N.empty = one(lambda s: A.is_const(s.value, True) and s.lineno < outer.lineno, "the empty-flow flag (a local set to True before the block loop)")
    if N.count is None or N.empty is None:
        return None
    tn = sorted(A.names_loaded(inner.test) - {N.count})
    if not ctx.require(len(tn) == 1 and N.count in A.names_loaded(inner.test), rule, inner, "the branch loop test `%s` does not compare "
                       "one index with the number of active branches" % A.src(inner.test)):
        return None
    N.ind = tn[0]
    N.seq = N.typ = None
    for st in inner.body:
        if isinstance(st, ast.Assign) and len(st.targets) == 1 and isinstance(st.targets[0], ast.Name):
            sv = A.src(st.value)
            if sv == "%s[%s]" % (N.seqs, N.ind):
                N.seq = st.targets[0].id
            elif sv == "%s[%s]" % (N.types, N.ind):
                N.typ = st.targets[0].id
    if not ctx.require(N.seq and N.typ, rule, inner, "Split.run: the branch and its kind are not read as %s[%s] / %s[%s] (same index)" % (
            N.seqs, N.ind, N.types, N.ind)):
        return None
    pulls = [s for s in outer.body if isinstance(s, ast.Assign) and len(s.targets) == 1 and isinstance(s.targets[0], ast.Name)
             and any(isinstance(c, ast.Call) and A.call_name(c) == "islice" for c in ast.walk(s.value))]
    if not ctx.require(len(pulls) == 1, rule, outer, "Split.run: the block read (islice) was not found in the block loop"):
        return None
    N.orig = pulls[0].targets[0].id
    bufs = {n.id for st in inner.body for n in ast.walk(st) if isinstance(n, ast.Name) and isinstance(n.ctx, ast.Store)
            and isinstance(A.parent(n), ast.Assign) and N.orig in A.names_loaded(A.parent(n).value)}
    if not ctx.require(len(bufs) == 1, rule, inner, "Split.run: the per-branch buffer (a copy of the block or the block) was not found"):
        return None
    N.buf = bufs.pop()
    N.stopped = set()
    for h in [h for h in ast.walk(inner) if isinstance(h, ast.ExceptHandler)]:
        for st in h.body:
            if isinstance(st, ast.Assign) and A.is_const(st.value, True) and len(st.targets) == 1 and isinstance(st.targets[0], ast.Name):
                N.stopped.add(st.targets[0].id)
    known = {N.seqs: "active_seqs", N.types: "active_seq_types", N.count: "n_of_active_seqs", N.empty: "flow_was_empty", N.ind: "ind",
             N.seq: "seq", N.typ: "seq_type", N.orig: "orig_buf", N.buf: "buf"}
    for i, name in enumerate(sorted(N.stopped)):
        known.setdefault(name, "stopped" if i == 0 else "stopped%d" % (i + 1))
    N.ren = Ren(fn, known)
    return N


# -- C03-a ---------------------------------------------------------------------------------
def check_classifier(ctx):
    res = ctx.res
    fn = ctx.tree.func(SPLIT, "_get_seq_with_type")
    params = A.func_params(fn)
    seqp = params[0] if params else "seq"
    # the kind variable is the second member of the returned pair (<branch>, <kind>)
    # (a returned local with one definition stands for that definition: `_ret = (seq, kind); return _ret`)
    all_rets = [r for r in A.walk_local(fn) if isinstance(r, ast.Return)]
    ret_vals = [fn_deref(fn, r.value) for r in all_rets]
    kvars = {v.elts[1].id for v in ret_vals if isinstance(v, ast.Tuple) and len(v.elts) == 2 and isinstance(v.elts[1], ast.Name)}
    if not ctx.require(len(kvars) == 1 and len(all_rets) >= 1 and all(
            isinstance(v, ast.Tuple) and len(v.elts) == 2 and isinstance(v.elts[1], ast.Name) for v in ret_vals),
            "C03-a", fn, "_get_seq_with_type does not return a pair (branch, kind variable) at every return"):
        return None
    kvar = kvars.pop()
    R = Ren(fn, {kvar: "seq_type"})
    is_kind_store = lambda st: isinstance(st, ast.Assign) and any(isinstance(t, ast.Name) and t.id == kvar for t in st.targets) \
        and isinstance(st.value, ast.Constant) and isinstance(st.value.value, str) and st.value.value
    produced = {}
    for st in A.walk_local(fn):
        if is_kind_store(st):
            produced.setdefault(st.value.value, st)
    KINDS = set(produced)
    ctx.instances_floor("C03-a/kinds", len(KINDS), 4, "kind strings produced by the classifier")
    # each test yields the kind of the class it tests
    n = 0
    for p in P.paths_of(fn):
        if p.end == "raise":
            continue
        kinds = [s.value.value for s in p.stmts() if is_kind_store(s)]
        if len(kinds) != 1:
            ctx.violation("C03-a", fn, "_get_seq_with_type assigns %d kinds (%s) on path [%s]: a branch would be classified "
                          "ambiguously or not at all" % (len(kinds), kinds, p.describe()), construct="classify:%s" % R.describe(p, 3), path=p)
            continue
        kind = kinds[0]
        n += 1
        want = None
        conv_want = None
        for t, pol in p.literals():
            if not pol:
                continue
            if isinstance(t, ast.Call) and A.call_name(t) == "isinstance" and len(t.args) == 2 and A.src(t.args[0]) == seqp:
                c = res.canon(t.args[1])
                if c in CLASS_KIND:
                    want = CLASS_KIND[c]
            elif isinstance(t, ast.Call) and res.canon(t.func) in PRED_KIND and want is None:
                want, conv_want = PRED_KIND[res.canon(t.func)]
        convs = [s.value for s in p.stmts() if isinstance(s, ast.Assign) and any(isinstance(t, ast.Name) and t.id == seqp for t in s.targets)]
        if want is None:
            # the fall-back: everything else becomes a Sequence
            want, conv_want = "sequence", "lena.core.sequence.Sequence"
            okc = len(convs) == 1 and isinstance(convs[0], ast.Call) and res.canon(convs[0].func) == conv_want
        elif conv_want is not None:
            okc = all(isinstance(c, ast.Call) and res.canon(c.func) == conv_want for c in convs) and len(convs) <= 1
        else:
            okc = not convs
        ctx.check("C03-a", kind == want, produced.get(kind, fn), "_get_seq_with_type classifies a branch as '%s' on path [%s], where its "
                  "own tests say it is a '%s': the branch would be driven with the wrong protocol" % (kind, p.describe(), want),
                  detail="classifier path [%s] => '%s'" % (R.describe(p, 2), kind), construct="kind:%s:%s" % (kind, R.describe(p, 2)), path=p)
        ctx.check("C03-a", okc, fn, "_get_seq_with_type converts a '%s' branch with `%s`, not to %s" % (
            kind, "; ".join(A.short(c, 40) for c in convs), conv_want or "itself"), detail="conversion matches kind '%s'" % kind,
            construct="convert:%s:%s" % (kind, R.describe(p, 2)), path=p)
        rets = [s for s in p.stmts() if isinstance(s, ast.Return)]
        if ctx.require(bool(rets) and A.src(deref(p, rets[-1].value)) == "(%s, %s)" % (seqp, kvar), "C03-a", fn, "_get_seq_with_type does not end with "
                       "`return (seq, seq_type)` on path [%s]" % p.describe(3)):
            ctx.ok("C03-a", fn, "returns (seq, seq_type)")
    ctx.instances_floor("C03-a/classifier", n, 7, "normal paths of the classifier")
    # a branch that already is an object of one of the sequence classes keeps its class: every class of CLASS_KIND -- in
    # particular every class the duck-typing part may *construct* -- has its own isinstance test, and no duck-typing
    # test is reached before all of them have failed (Sequence(Sum()) is a 'sequence' branch, not a fill_compute one)
    tested = {}
    for t in A.walk_local(fn):
        if isinstance(t, ast.Call) and A.call_name(t) == "isinstance" and len(t.args) == 2 and A.src(t.args[0]) == seqp:
            c = res.canon(t.args[1])
            if c in CLASS_KIND:
                tested[c] = t
    for c, kind in sorted(CLASS_KIND.items()):
        ctx.check("C03-a", c in tested, fn, "_get_seq_with_type has no `isinstance(%s, %s)` test: an object that already is a %s is "
                  "re-classified by what its elements can do (a Sequence around a fill/compute element becomes a fill_compute branch "
                  "and is computed once at the end instead of being run on every block)" % (seqp, c.rsplit(".", 1)[-1], c.rsplit(".", 1)[-1]),
                  detail="explicit type test for %s" % c.rsplit(".", 1)[-1], construct="explicit-test:%s" % c.rsplit(".", 1)[-1])
    n_duck = 0
    for p in P.paths_of(fn):
        for t, pol in p.literals():
            if isinstance(t, ast.Call) and res.canon(t.func) in PRED_KIND:
                n_duck += 1
                refuted = {res.canon(x.args[1]) for x, pl in p.literals() if pl is False and isinstance(x, ast.Call)
                           and A.call_name(x) == "isinstance" and len(x.args) == 2 and A.src(x.args[0]) == seqp}
                # the explicit chain may be summarised by the kind variable being still empty
                via_kvar = any(A.src(x) == kvar and pl is False for x, pl in p.literals())
                missing = [c for c in CLASS_KIND if c not in refuted]
                ok = not missing or (via_kvar and all(c in tested for c in CLASS_KIND))
                ctx.check("C03-a", ok, t, "the duck-typing test `%s` is reached although the branch has not been found to be none of "
                          "%s" % (A.short(t, 40), ", ".join(c.rsplit(".", 1)[-1] for c in missing)),
                          detail="duck typing only after the explicit type tests failed", construct="duck-before-explicit:%s" % A.call_name(t), path=p)
                break
    ctx.instances_floor("C03-a/duck", n_duck, 2, "classifier paths through a duck-typing test")
    # predicates used by the classifier require the capabilities of their kind
    for pred, caps in (("is_fill_compute_el", ("fill", "compute")), ("is_fill_request_el", ("fill", "request")), ("is_run_el", ("run",))):
        pf = ctx.tree.func("lena.core.check_sequence_type", pred)
        rets = [r for r in A.walk_local(pf) if isinstance(r, ast.Return)]
        ok = len(rets) == 1 and bool(A.func_params(pf))
        if ok:
            obj = A.func_params(pf)[0]
            lits = [A.src(t).replace('"', "'") for t, pol in A.literals(fn_deref(pf, rets[0].value), True) if pol]
            for c in caps:
                ok = ok and "hasattr(%s, '%s')" % (obj, c) in lits and "callable(%s.%s)" % (obj, c) in lits
        ctx.check("C03-a", ok, pf, "%s does not require callable %s: an object without them would be driven as that kind" % (pred, "/".join(caps)),
                  detail="%s <=> callable %s" % (pred, ", ".join(caps)), construct="pred:%s" % pred)
    # the sequence predicates ask of an element exactly what the element predicate -- with which the constructor of that
    # kind searches for its main element -- asks: otherwise a branch the constructor would accept is classified as another kind
    n_any = 0
    for spred, epred in (("is_fill_compute_seq", "is_fill_compute_el"), ("is_fill_request_seq", "is_fill_request_el")):
        sf = ctx.tree.func("lena.core.check_sequence_type", spred)
        sp = A.func_params(sf)[0]
        ecanon = "lena.core.check_sequence_type." + epred
        anys = [c for c in A.walk_local(sf) if isinstance(c, ast.Call) and res.call_canon(c) == "builtins.any" and len(c.args) == 1]
        if not ctx.require(anys, "C03-a", sf, "%s: no any(...) over the elements of the sequence was found" % spred):
            continue
        for c in anys:
            n_any += 1
            a = c.args[0]
            ok = False
            if isinstance(a, ast.Call) and res.call_canon(a) == "builtins.map" and len(a.args) == 2:
                ok = res.canon(a.args[0]) == ecanon and A.src(a.args[1]) == sp
            elif isinstance(a, (ast.GeneratorExp, ast.ListComp)) and len(a.generators) == 1:
                g = a.generators[0]
                ok = (not g.ifs and A.src(g.iter) == sp and isinstance(a.elt, ast.Call) and res.canon(a.elt.func) == ecanon
                      and len(a.elt.args) == 1 and A.src(a.elt.args[0]) == A.src(g.target))
            ctx.check("C03-a", ok, c, "%s decides by `%s`, not by any(%s(el) for el in %s): an element the %s constructor would take "
                      "for its main element (it searches with %s alone) no longer makes the branch that kind -- a nested Split or "
                      "Count with fill/compute would be run per block as a plain sequence and yield partial results"
                      % (spred, A.short(c, 70), epred, sp, "FillComputeSeq" if "compute" in spred else "FillRequestSeq", epred),
                      detail="%s: any element satisfying %s, nothing more" % (spred, epred), construct="seq-pred:%s" % spred)
        selfs = [c for c in A.walk_local(sf) if isinstance(c, ast.Call) and res.canon(c.func) == ecanon and len(c.args) == 1
                 and A.src(c.args[0]) == sp]
        ctx.check("C03-a", len(selfs) >= 1, sf, "%s does not test the object itself with %s: a bare element of that kind is not "
                  "recognised" % (spred, epred), detail="%s tests the bare object with %s" % (spred, epred), construct="seq-pred-self:%s" % spred)
    ctx.instances_floor("C03-a/seq-pred", n_any, 2, "element scans in the sequence predicates")
    # is_source, used by Split.__call__ / Zip for the common type, must recognise what the classifier calls a source
    isf = ctx.tree.func("lena.core.check_sequence_type", "is_source")
    ip = A.func_params(isf)[0]
    rets = [r for r in A.walk_local(isf) if isinstance(r, ast.Return)]
    v = fn_deref(isf, rets[0].value) if len(rets) == 1 else None
    ok = isinstance(v, ast.Call) and A.call_name(v) == "isinstance" and len(v.args) == 2 and A.src(v.args[0]) == ip \
        and (res.canon(v.args[1]) == "lena.core.source.Source" or A.src(v.args[1]).endswith("source.Source"))
    ctx.check("C03-a", ok, isf, "is_source is `%s`, not isinstance(seq, Source): the classifier accepts every instance of Source (also of "
              "a subclass) as a source branch, so a Split of such sources would be classified 'source' and yet refuse to be called"
              % (A.short(v, 50) if v is not None else "?"), detail="is_source agrees with the classifier's isinstance test", construct="is-source")
    return KINDS


def check_kinds(ctx, KINDS):
    fn = ctx.tree.func(SPLIT, "Split.run")
    outer, inner = split_loops(ctx, fn)
    if outer is None:
        return
    final = [s for s in fn.body if isinstance(s, ast.For) and s.lineno > outer.lineno]
    if not ctx.require(len(final) == 1, "C03-a", fn, "Split.run: expected one final pass after the block loop"):
        return
    N = derive_names(ctx, fn, outer, inner)
    if N is None:
        return
    ftyp = final[0].target.elts[1].id if isinstance(final[0].target, ast.Tuple) and len(final[0].target.elts) == 2 \
        and isinstance(final[0].target.elts[1], ast.Name) else None
    tables = [("block loop of Split.run", kinds_compared(inner.body, N.typ), True, inner)]
    if ftyp is not None:    # otherwise check_final_pass reports the unrecognised loop
        tables.append(("final pass of Split.run", kinds_compared(final[0].body, ftyp), True, final[0]))
    init = ctx.tree.func(SPLIT, "Split.__init__")
    zinit = ctx.tree.func(ZIP, "Zip.__init__")
    # the common kind of a constructor is the one taken out of the set of kinds (k = set(kinds).pop())
    common = {}
    for cname, f in (("Split", init), ("Zip", zinit)):
        kv, sv = popped_kind(f)
        if ctx.require(kv is not None, "C03-a", f, "%s.__init__: the common kind is not taken from the set of kinds by one "
                       "`kind = kinds.pop()` with `kinds = set(...)`" % cname):
            common[cname] = (kv, sv)
            tables.append(("common-type table of %s.__init__" % cname, kinds_compared([f], kv), False, f))
    for name, tab, exhaustive, node in tables:
        extra = sorted(set(tab) - KINDS)
        for k in extra:
            ctx.violation("C03-a", tab[k], "the %s compares seq_type with '%s', a kind the classifier never produces (%s): that branch "
                          "is dead and a produced kind is not handled" % (name, k, ", ".join(sorted(KINDS))), construct="unknown-kind:%s:%s" % (name, k))
        missing = sorted(KINDS - set(tab)) if exhaustive else []
        for k in missing:
            ctx.violation("C03-a", node, "the %s has no branch for kind '%s': branches of that kind are silently ignored there" % (name, k),
                          construct="missing-kind:%s:%s" % (name, k))
        if not extra and not missing:
            ctx.ok("C03-a", node, "%s handles %s" % (name, ", ".join(sorted(tab))))
    if len(common) == 2 and ftyp is not None:
        ctx.instances_floor("C03-a/tables", len(tables), 4, "dispatch tables")
    # common type => methods of that kind are installed
    for cls, f, table in (("Split", init, {"fill_compute": {"fill": "_fill", "compute": "_compute"},
                                           "fill_request": {"fill": "_fill", "request": "_request"}}),
                          ("Zip", zinit, {"fill_compute": {"fill": "_fill", "compute": "_compute"},
                                          "fill_request": {"fill": "_fill", "request": "_request"}})):
        if cls not in common:
            continue
        kvar = common[cls][0]
        seen = set()
        for p in P.paths_of(f):
            if p.end == "raise":
                continue
            k = path_kind(p, kvar)
            if k not in table or k in seen:
                continue
            seen.add(k)
            binds = {}
            for s in p.stmts():
                if isinstance(s, ast.Assign) and len(s.targets) == 1 and A.is_self_attr(s.targets[0]) and A.is_self_attr(s.value):
                    binds[s.targets[0].attr] = s.value.attr
            ok = all(binds.get(a) == m for a, m in table[k].items())
            wrong = {a: binds.get(a) for a in CAPS["fill_compute"] | CAPS["fill_request"] if a in binds and a not in table[k]}
            ctx.check("C03-a", ok and not wrong, f, "%s.__init__ with common kind '%s' binds %s; the kind offers %s" % (
                cls, k, binds, table[k]), detail="%s: common kind '%s' installs %s" % (cls, k, ", ".join(sorted(table[k]))),
                construct="common:%s:%s" % (cls, k), path=p)
        ctx.check("C03-a", seen == set(table), f, "%s.__init__ installs common-type methods only for %s" % (cls, sorted(seen)),
                  detail="%s: both fill kinds have common-type methods" % cls, construct="common-kinds:%s" % cls)
    # Zip rejects mixed kinds and non-fill kinds
    if "Zip" not in common:
        return
    kvar, svar = common["Zip"]
    R = Ren(zinit, {kvar: "seq_type", svar: "seq_types"})
    ok = False
    for p in P.paths_of(zinit):
        lits = R.lits(p)
        if "len(seq_types) != 1" in lits:
            ok = p.end == "raise"
    ctx.check("C03-a", ok, zinit, "Zip.__init__ does not reject branches of different kinds", detail="Zip: one kind only", construct="zip-one-kind")
    n_ok = 0
    for p in P.paths_of(zinit):
        if p.end == "raise" or "not (len(seq_types) != 1)" not in R.lits(p):
            continue
        k = path_kind(p, kvar)
        if k in ("fill_compute", "fill_request"):
            n_ok += 1
            continue
        ctx.violation("C03-a", zinit, "Zip.__init__ accepts branches of kind %s without offering methods for them [%s]; only fill_compute and "
                      "fill_request can be zipped" % ("'%s'" % k if k else "other than fill_compute/fill_request", p.describe(4)),
                      construct="zip-other-kind:%s" % k, path=p)
    ctx.instances_floor("C03-a/zip", n_ok, 2, "accepting paths of Zip.__init__")


# -- C03-b/c/d ---------------------------------------------------------------------------------
def check_block_loop(ctx, KINDS):
    res = ctx.res
    fn = ctx.tree.func(SPLIT, "Split.run")
    outer, inner = split_loops(ctx, fn)
    if outer is None:
        return
    N = derive_names(ctx, fn, outer, inner)
    if N is None:
        return
    seqvar, typevar = N.seq, N.typ
    R = N.ren
    ctx.ok("C03-d", inner, "branch and kind are read at the same index %s" % N.ind)
    paths = P.loop_body_paths(inner)
    per_kind = {}
    n_paths = 0
    checked_yield = set()
    for p in paths:
        if p.end in ("raise", "return"):
            continue
        n_paths += 1
        k = path_kind(p, typevar)
        calls = calls_on(p, seqvar)
        attrs = [a for _, a, _ in calls]
        d1, d2 = dels_on(p, N.seqs), dels_on(p, N.types)
        # how the path changes the count and the index: constants added (`x -= 1`, `x = x - 1`, ...), '?' for other stores
        decs, incs = steps_on(p, N.count), steps_on(p, N.ind)
        odd = "?" in decs or "?" in incs
        if odd:
            ctx.unknown("C03-d", inner, "Split.run stores %s other than by adding a constant on path [%s]: the analyser cannot "
                        "tell how often the index advances / the count drops" % (
                            " and ".join(R.map.get(x, x) for x, st in ((N.count, decs), (N.ind, incs)) if "?" in st), p.describe(5)))
        dropped = bool(d1 or d2 or decs)
        stopped_lit = [pol for t, pol in p.literals() if A.src(t) in N.stopped]
        in_handler = any(e[0] == "exc" for e in p.ev)
        # did the branch signal LenaStopFill on this path?  With the flag idiom the test of the flag says so; where the code
        # leaves the fill loop by `break` in the handler and continues in the loop's else (no flag), the handler event does
        signalled = bool(stopped_lit[-1]) if stopped_lit else in_handler
        desc = p.describe(5)
        # C03-d pairing
        if odd:
            pass
        elif dropped:
            ok = len(d1) == 1 and len(d2) == 1 and len(decs) == 1 and A.src(d1[0][1].slice) == N.ind and A.src(d2[0][1].slice) == N.ind \
                and decs[0] == -1 and not incs and p.end == "continue"
            ctx.check("C03-d", ok, inner, "Split.run drops a branch inconsistently on path [%s]: del active_seqs[ind] x%d, del "
                      "active_seq_types[ind] x%d, n_of_active_seqs -= 1 x%d, ind advanced x%d, ends with %s -- the two lists (branch, "
                      "kind) and the count must change together and ind must stay" % (desc, len(d1), len(d2), len(decs), len(incs), p.end),
                      detail="drop path [%s]: both lists, count, ind kept" % R.describe(p, 3), construct="drop:%s" % R.describe(p, 4), path=p)
        else:
            ok = incs == [1] and p.end in ("fall", "continue")
            ctx.check("C03-d", ok, inner, "Split.run does not advance ind exactly once on the path [%s] that keeps the branch (%d "
                      "increments): a branch would be visited twice or skipped" % (desc, len(incs)),
                      detail="keep path [%s]: ind += 1 once" % R.describe(p, 3), construct="advance:%s" % R.describe(p, 4), path=p)
        if k is None:
            ctx.check("C03-b", not calls, inner, "Split.run calls %s on a branch whose kind matched no test [%s]" % (attrs, desc),
                      detail="no kind matched: nothing called", construct="nokind-calls", path=p, )
            continue
        if k not in CAPS:
            continue   # reported by C03-a
        per_kind.setdefault(k, 0)
        per_kind[k] += 1
        foreign = sorted(set(attrs) - CAPS[k])
        for a in foreign:
            c = [c for _, x, c in calls if x == a][0]
            ctx.violation("C03-b", c, "Split.run calls `%s` on a branch of kind '%s' [%s]; that kind only offers %s" % (
                A.short(c, 40), k, desc, ", ".join(sorted(CAPS[k]))), construct="foreign:%s:%s" % (k, a), path=p)
        if foreign:
            continue
        cnt = lambda a: sum(1 for x in attrs if x == a)
        if k == "source":
            ok = cnt("__call__") == 1 and dropped
            msg = "a source is called exactly once and then dropped"
        elif k == "sequence":
            runs = [c for _, a, c in calls if a == "run"]
            ok = cnt("run") == 1 and not dropped and len(runs[0].args) == 1 and A.src(runs[0].args[0]) == N.buf
            msg = "a plain sequence runs the block (run(buf)) exactly once and stays active"
        elif k == "fill_compute":
            want_compute = 1 if signalled else 0
            ok = cnt("compute") == want_compute and dropped == bool(want_compute)
            msg = "a fill_compute branch is computed (once) and dropped only when it signalled LenaStopFill, otherwise kept"
        else:
            ok = cnt("request") == 1 and dropped == signalled
            msg = "a fill_request branch yields request() exactly once per block and is dropped only when it signalled LenaStopFill"
            # request comes after the fills
            fills = [i for i, a, _ in calls if a == "fill"]
            reqs = [i for i, a, _ in calls if a == "request"]
            if ok and fills and reqs:
                ok = max(fills) < min(reqs)
        ctx.check("C03-b", ok, inner, "Split.run, kind '%s', path [%s]: calls %s, dropped=%s -- %s" % (k, desc, attrs, dropped, msg),
                  detail="'%s' [%s]: %s" % (k, R.describe(p, 3), msg), construct="protocol:%s:%s" % (k, R.describe(p, 4)), path=p)
        # fills are per value of the block
        if k in ("fill_compute", "fill_request"):
            for i, a, c in calls:
                if a == "fill":
                    loop = A.enclosing(c, (ast.For,))
                    okf = loop is not None and A.src(loop.iter) == N.buf and len(c.args) == 1 and A.src(c.args[0]) == A.src(loop.target)
                    ctx.check("C03-b", okf, c, "Split.run fills `%s`, not every value of the block (`for val in buf: seq.fill(val)`)" % A.short(c, 40),
                              detail="fill(val) for val in buf", construct="fill-arg:%s" % R.short(c, 50), path=p)
        # results of compute/request/run/__call__ are yielded
        for i, a, c in calls:
            if a in ("compute", "request", "run", "__call__") and id(c) not in checked_yield:
                checked_yield.add(id(c))
                yields_all_results(ctx, "C03-b", c, "Split.run ('%s' branch)" % k, a, "yield-results:%s:%s" % (k, a), path=p)
        # C03-c: handler entered => finalised and dropped
        if in_handler:
            fin = {"fill_compute": "compute", "fill_request": "request"}.get(k)
            ok = fin is not None and cnt(fin) == 1 and dropped
            ctx.check("C03-c", ok, inner, "Split.run: after LenaStopFill on a '%s' branch [%s] the branch is %s and %s; it must be "
                      "finalised (%s) and dropped" % (k, desc, "finalised" if fin and cnt(fin) else "not finalised",
                                                      "dropped" if dropped else "kept", fin),
                      detail="LenaStopFill on '%s' => %s() and drop" % (k, fin), construct="stop:%s:%s" % (k, R.describe(p, 4)), path=p)
    ctx.instances_floor("C03-b/paths", n_paths, 12, "paths through the branch loop")
    for k in sorted(KINDS & set(CAPS)):
        ctx.check("C03-b", per_kind.get(k, 0) > 0, inner, "no path of the branch loop handles kind '%s'" % k, detail="kind '%s': %d paths" % (k, per_kind.get(k, 0)),
                  construct="kind-paths:%s" % k)
    # C03-c: every fill is enclosed by except LenaStopFill with stopped = True; break
    fills = [c for c in A.walk_local(fn) if isinstance(c, ast.Call) and isinstance(c.func, ast.Attribute) and c.func.attr == "fill"
             and isinstance(c.func.value, ast.Name) and c.func.value.id == seqvar]
    structured = set()
    for c in fills:
        tr = A.enclosing(c, (ast.Try,))
        ok = tr is not None and any(c in list(ast.walk(s)) for s in tr.body)
        hs = [h for h in (tr.handlers if tr is not None else []) if h.type is not None and res.canon(h.type) == LSF]
        ok = ok and len(hs) == 1
        if ok:
            body = [s for s in hs[0].body if not A.is_noop_stmt(s)]
            sets_flag = any(isinstance(s, ast.Assign) and A.is_const(s.value, True) and A.src(s.targets[0]) in N.stopped for s in body)
            floop = A.enclosing(c, (ast.For,))
            # the handler leaves the fill loop; what happens then is decided on the paths (C03-b/C03-c: finalised and dropped
            # iff the handler was entered).  Either it records the stop in the flag, or the loop's else clause is the
            # continuation of the branch that was not stopped (`for ..: try: fill except LenaStopFill: break / else: ..`)
            ok = bool(body) and isinstance(body[-1], ast.Break) and (sets_flag or (len(body) == 1 and floop is not None and bool(floop.orelse)))
            if ok and not sets_flag:
                structured.add(id(floop))
            wide = [h for h in tr.handlers if h is not hs[0]]
            ok = ok and not wide
        ctx.check("C03-c", ok, c, "`%s` in Split.run is not enclosed by `except LenaStopFill: stopped = True; break` (and nothing wider): "
                  "a branch that signals the end of filling would abort the whole Split or keep being filled" % A.short(c, 40),
                  detail="fill enclosed by except LenaStopFill => stopped, break", construct="fill-guard:%d" % fills.index(c))
    ctx.instances_floor("C03-c", len(fills), 2, "fill sites in Split.run")
    # `stopped` starts False before each fill loop
    for c in fills:
        loop = A.enclosing(c, (ast.For,))
        if id(loop) in structured:
            ctx.ok("C03-c", loop, "no flag: the handler breaks out of the fill loop, the loop's else continues the unstopped branch")
            continue
        blk = A.parent(loop)
        body = [st for st in getattr(blk, "body", []) if st is loop or not A.is_noop_stmt(st)]
        idx = body.index(loop) if loop in body else -1
        ok = idx > 0 and isinstance(body[idx - 1], ast.Assign) and A.is_const(body[idx - 1].value, False) \
            and A.src(body[idx - 1].targets[0]) in N.stopped
        ctx.check("C03-c", ok, loop, "Split.run does not reset `stopped = False` right before filling a branch: a stop signalled by "
                  "an earlier branch would drop this one", detail="stopped = False before the fill loop", construct="stopped-reset:%d" % fills.index(c))
    # C03-d: who may write the lists
    writes = []
    for n in A.walk_local(fn):
        if isinstance(n, ast.Call) and isinstance(n.func, ast.Attribute) and A.src(n.func.value) in (N.seqs, N.types) \
                and n.func.attr in ("append", "insert", "pop", "remove", "sort", "reverse", "extend", "clear"):
            writes.append(n)
        elif isinstance(n, ast.Subscript) and isinstance(n.ctx, ast.Store) and A.src(n.value) in (N.seqs, N.types):
            writes.append(n)
        elif isinstance(n, ast.Name) and isinstance(n.ctx, ast.Store) and n.id in (N.seqs, N.types) and in_loop(n, outer):
            writes.append(n)
    for wnode in writes:
        ctx.violation("C03-d", wnode, "Split.run changes the list of active branches other than by dropping index ind: `%s` (reordering or "
                      "re-adding branches breaks the documented branch order)" % A.short(A.enclosing(wnode, (ast.stmt,)) or wnode, 60),
                      construct="list-write:%s" % R.short(A.enclosing(wnode, (ast.stmt,)) or wnode, 160))
    if not writes:
        ctx.ok("C03-d", fn, "the active lists are only changed by `del [ind]`")
    inits = {A.src(s.targets[0]): s.value for s in fn.body if isinstance(s, ast.Assign) and len(s.targets) == 1}
    for lst, attr in ((N.seqs, "self._seqs"), (N.types, "self._seq_types")):
        v = inits.get(lst)
        if not ctx.require(v is not None, "C03-d", fn, "Split.run: initial value of %s not found" % lst):
            continue
        sv = A.src(v)
        if sv in (attr + "[:]", "list(%s)" % attr, "%s.copy()" % attr, "copy.copy(%s)" % attr):
            ctx.ok("C03-d", v, "%s is a copy of %s in constructor order" % (lst, attr))
        elif sv == attr:
            ctx.violation("C03-d", v, "Split.run works on %s itself, not on a copy: dropping a finished branch (`del %s[ind]`) removes it "
                          "from the Split, so a second run has fewer branches" % (attr, lst), construct="active-alias:%s" % R.map.get(lst, lst))
        elif K.iter_order(v, attr) == "wrong":
            ctx.violation("C03-d", v, "Split.run starts from `%s`, not from all branches in constructor order" % sv, construct="active-order:%s" % R.map.get(lst, lst))
        else:
            ctx.unknown("C03-d", v, "Split.run: %s = %s is not a recognised copy of %s" % (lst, sv, attr))
    v = inits.get(N.count)
    if ctx.require(v is not None, "C03-d", fn, "Split.run: n_of_active_seqs not initialised"):
        ctx.check("C03-d", A.src(v) in ("len(%s)" % N.seqs, "len(%s)" % N.types, "len(self._seqs)"), v, "n_of_active_seqs starts as `%s`, "
                  "not the number of branches" % A.src(v), detail="n_of_active_seqs = len(active_seqs)", construct="active-count")
    # ind restarts at 0 in every block, right before the branch loop; the loop runs while ind < n
    idx = outer.body.index(inner)
    ind_stores = [st for st in outer.body[:idx] if isinstance(st, ast.Assign) and any(isinstance(t, ast.Name) and t.id == N.ind for t in st.targets)]
    nested = [n for st in outer.body[:idx] for n in ast.walk(st) if isinstance(n, ast.Name) and n.id == N.ind and isinstance(n.ctx, ast.Store)]
    if not nested:
        ctx.violation("C03-d", inner, "Split.run does not restart at the first active branch for every block (no `ind = 0` in the block "
                      "loop before the branch loop): from the second block on no branch would be visited", construct="ind-restart")
    elif ctx.require(len(ind_stores) == len(nested), "C03-d", inner, "Split.run: ind is set conditionally before the branch loop"):
        last = ind_stores[-1]
        ctx.check("C03-d", A.src(last.value) == "0", last, "Split.run starts the branch loop of a block at ind = %s, not at the first "
                  "active branch" % A.src(last.value), detail="ind = 0 before the branch loop of each block", construct="ind-restart")
    lc = K.linear_cmp(inner.test)
    if ctx.require(lc is not None, "C03-d", inner, "the branch loop test `%s` is not a linear comparison" % A.src(inner.test)):
        coef, const, op = lc
        # ind < n  <=>  ind - n < 0  <=>  ind - n + 1 <= 0
        norm = (coef.get(N.ind, 0), coef.get(N.count, 0), const, op)
        good = norm in ((1, -1, 0, "<"), (1, -1, 1, "<="))
        ctx.check("C03-d", good and set(coef) <= {N.ind, N.count}, inner, "the branch loop runs `while %s`, which is not "
                  "`ind < n_of_active_seqs`: the last branches are skipped or an index past the end is used" % A.src(inner.test),
                  detail="while ind < n_of_active_seqs", construct="branch-loop-test")
    # __init__ keeps _seqs and _seq_types parallel
    init = ctx.tree.func(SPLIT, "Split.__init__")
    loops = [l for l in A.walk_local(init) if isinstance(l, ast.For) and any(
        isinstance(c, ast.Call) and A.call_name(c) == "_get_seq_with_type" for c in ast.walk(l))]
    if ctx.require(len(loops) == 1, "C03-d", init, "Split.__init__: the conversion loop was not found"):
        # the converted branch and its kind are the two names unpacked from _get_seq_with_type(...);
        # the list of converted branches is the one the branch is stored in
        unp = [s for s in A.walk_body(loops[0].body) if isinstance(s, ast.Assign) and isinstance(s.value, ast.Call)
               and A.call_name(s.value) == "_get_seq_with_type"]
        ok_unp = len(unp) == 1 and len(unp[0].targets) == 1 and isinstance(unp[0].targets[0], ast.Tuple) \
            and len(unp[0].targets[0].elts) == 2 and all(isinstance(e, ast.Name) for e in unp[0].targets[0].elts)
        if not ctx.require(ok_unp, "C03-d", loops[0], "Split.__init__: the result of _get_seq_with_type is not unpacked into (branch, kind)"):
            return
        seqv, typv = (e.id for e in unp[0].targets[0].elts)
        stores = sorted({c.func.value.id for c in A.walk_body(loops[0].body) if isinstance(c, ast.Call) and isinstance(c.func, ast.Attribute)
                         and c.func.attr in ("append", "insert", "appendleft") and isinstance(c.func.value, ast.Name)
                         and any(isinstance(a, ast.Name) and a.id == seqv for a in c.args)})
        if not ctx.require(len(stores) <= 1, "C03-d", loops[0], "Split.__init__: the converted branch is stored in several lists (%s)" % ", ".join(stores)):
            return
        newv = stores[0] if stores else None
        RI = Ren(init, {seqv: "seq", typv: "seq_type", newv: "new_seqs"})
        for p in P.loop_body_paths(loops[0]):
            if p.end == "raise":
                continue
            apps = [RI.src(c) for _, c in p.calls() if isinstance(c.func, ast.Attribute) and c.func.attr in ("append", "insert", "appendleft")]
            a1 = [a for a in apps if a.startswith("new_seqs.")]
            a2 = [a for a in apps if a.startswith("self._seq_types.")]
            if a1 == ["new_seqs.append(seq)"] and a2 == ["self._seq_types.append(seq_type)"]:
                ctx.ok("C03-d", loops[0], "__init__: branch and kind appended together, in argument order")
            elif len(a1) != len(a2) or any(".insert(" in a for a in apps):
                ctx.violation("C03-d", loops[0], "Split.__init__ does not store each converted branch and its kind at the same position "
                              "of the two parallel lists (%s)" % ", ".join(apps), construct="init-parallel", path=p)
            else:
                ctx.unknown("C03-d", loops[0], "Split.__init__: unrecognised way of storing branches and kinds (%s)" % ", ".join(apps))
        sup = [c for c in A.walk_local(init) if isinstance(c, ast.Call) and isinstance(c.func, ast.Attribute) and c.func.attr == "__init__"]
        if ctx.require(len(sup) == 1 and len(sup[0].args) == 1, "C03-d", init, "Split.__init__: call of the base constructor not found"):
            ctx.check("C03-d", newv is not None and A.src(sup[0].args[0]) == newv, sup[0], "Split.__init__ hands `%s` to the base class, not the converted "
                      "branches in order" % A.src(sup[0].args[0]), detail="_seqs = converted branches", construct="init-seqs")


def in_loop(node, loop):
    return any(a is loop for a in A.ancestors(node))


# -- C03-e/f ---------------------------------------------------------------------------------
def check_final_pass(ctx, KINDS):
    fn = ctx.tree.func(SPLIT, "Split.run")
    outer, inner = split_loops(ctx, fn)
    if outer is None:
        return
    final = [s for s in fn.body if isinstance(s, ast.For) and s.lineno > outer.lineno]
    if len(final) != 1:
        return
    loop = final[0]
    N = derive_names(ctx, fn, outer, inner)
    if N is None:
        return
    it = loop.iter
    fseq = ftyp = None
    if isinstance(it, ast.Call) and A.call_name(it) == "zip" and len(it.args) == 2 and isinstance(loop.target, ast.Tuple) \
            and len(loop.target.elts) == 2 and all(isinstance(e, ast.Name) for e in loop.target.elts):
        fseq, ftyp = loop.target.elts[0].id, loop.target.elts[1].id
        o1, o2 = K.iter_order(it.args[0], N.seqs), K.iter_order(it.args[1], N.types)
        if "wrong" in (o1, o2):
            ctx.violation("C03-e", loop, "the final pass iterates `%s`: the remaining branches are not visited in branch order, each with "
                          "its own kind" % A.short(it, 60), construct="final-iter")
        elif (o1, o2) == ("forward", "forward"):
            ctx.ok("C03-e", loop, "final pass: for seq, seq_type in zip(active_seqs, active_seq_types)")
        else:
            ctx.unknown("C03-e", loop, "final pass iterates `%s`" % A.short(it, 60))
            return
    else:
        ctx.unknown("C03-e", loop, "the final pass is not `for seq, seq_type in zip(active_seqs, active_seq_types)`")
        return
    seen = {}
    checked_yield = set()
    R = N.ren.also({fseq: "seq", ftyp: "seq_type"})
    for p in P.loop_body_paths(loop):
        if p.end in ("raise",):
            continue
        k = path_kind(p, ftyp)
        if k is None or k not in CAPS:
            continue
        calls = calls_on(p, fseq)
        attrs = [a for _, a, _ in calls]
        lits = nlits(p)
        guarded = N.empty in lits or any(isinstance(s, ast.Assert) and A.src(s.test) == N.empty for s in p.stmts())
        not_empty = "not " + N.empty in lits
        foreign = sorted(set(attrs) - CAPS[k])
        for a in foreign:
            c = [c for _, x, c in calls if x == a][0]
            ctx.violation("C03-b", c, "the final pass of Split.run calls `%s` on a branch of kind '%s'; that kind only offers %s" % (
                A.short(c, 40), k, ", ".join(sorted(CAPS[k]))), construct="final-foreign:%s:%s" % (k, a), path=p)
        if foreign:
            continue
        main = {"source": "__call__", "fill_compute": "compute", "fill_request": "request", "sequence": "run"}[k]
        n = sum(1 for a in attrs if a == main)
        if k == "fill_compute":
            ok = n == 1 and not guarded and not not_empty
            msg = "compute() of every remaining fill_compute branch exactly once, whether or not the flow was empty"
        elif not_empty:
            ok = n == 0
            msg = "nothing more for a '%s' branch after a non-empty flow (it yielded per block)" % k
        else:
            ok = n == 1 and guarded
            msg = "a '%s' branch is invoked once when the flow was empty" % k
            if ok and k == "sequence":
                c = [c for _, a, c in calls if a == "run"][0]
                ok = len(c.args) == 1 and A.src(c.args[0]) in ("[]", "()", "iter([])", "iter(())")
        ctx.check("C03-e", ok, loop, "final pass of Split.run, kind '%s' [%s]: calls %s -- expected %s" % (k, p.describe(4), attrs, msg),
                  detail="final pass '%s' [%s]: %s" % (k, R.describe(p, 2), msg), construct="final:%s:%s" % (k, R.describe(p, 3)), path=p)
        seen.setdefault(k, set()).add("empty" if (guarded or k == "fill_compute") else "nonempty")
        for i, a, c in calls:
            if id(c) not in checked_yield:
                checked_yield.add(id(c))
                yields_all_results(ctx, "C03-e", c, "the final pass of Split.run ('%s' branch)" % k, a, "final-yield:%s" % k, path=p)
    for k in sorted(KINDS & set(CAPS)):
        ctx.check("C03-e", "empty" in seen.get(k, ()), loop, "on an empty flow a branch of kind '%s' is not invoked by the final pass" % k,
                  detail="empty flow: '%s' invoked" % k, construct="final-empty:%s" % k)
    # flow_was_empty: True initially, False only under a non-empty block
    stores = [s for s in A.walk_local(fn) if isinstance(s, ast.Assign) and any(isinstance(t, ast.Name) and t.id == N.empty for t in s.targets)]
    before = [s for s in stores if s in fn.body and s.lineno < outer.lineno]
    inloop = [s for s in stores if in_loop(s, outer)]
    if ctx.require(len(before) == 1 and len(before) + len(inloop) == len(stores), "C03-e", fn, "flow_was_empty is not initialised once before the block loop"):
        ctx.check("C03-e", A.src(before[0].value) == "True", before[0], "flow_was_empty starts as `%s`: on an empty flow the branches would "
                  "not be invoked at all" % A.src(before[0].value), detail="flow_was_empty = True before the block loop", construct="flow-was-empty-init")
        if not inloop:
            ctx.violation("C03-e", fn, "flow_was_empty is never cleared: after a non-empty flow the final pass would invoke every "
                          "fill_request and sequence branch once more", construct="flow-was-empty-never-cleared")
        bufnames = {N.orig}
        for st in inloop:
            if A.src(st.value) != "False":
                ctx.violation("C03-e", st, "flow_was_empty is set to `%s` inside the block loop" % A.src(st.value), construct="flow-was-empty-store")
                continue
            for p in P.loop_body_paths(outer):
                if p.has(st):
                    lits = nlits(p)
                    okp = any(l in bufnames or l in ["len(%s) > 0" % b for b in bufnames] + ["len(%s) != 0" % b for b in bufnames] for l in lits)
                    ctx.check("C03-e", okp, st, "flow_was_empty is cleared on a path [%s] that did not find a non-empty block: an empty "
                              "flow would be taken for a non-empty one and the branches not invoked" % p.describe(3),
                              detail="flow_was_empty cleared only under a non-empty block", construct="flow-was-empty-clear", path=p)
                    break
    # C03-f
    init = ctx.tree.func(SPLIT, "Split.__init__")
    ok = False
    for p in P.paths_of(init):
        if p.end == "raise":
            continue
        bound = any(isinstance(s, ast.Assign) and A.src(s) == "self.run = self._empty_run" for s in p.stmts())
        zero = "self._n_seq_types == 0" in nlits(p)
        if zero:
            ok = bound
        elif bound:
            ok = False
            ctx.violation("C03-f", init, "Split.__init__ installs _empty_run on a path where there are branches [%s]" % p.describe(), path=p,
                          construct="empty-run-nonempty")
            break
    ctx.check("C03-f", ok, init, "an empty Split does not install the identity run (_empty_run under `self._n_seq_types == 0`)",
              detail="no branches => run = _empty_run", construct="empty-run-install")
    er = ctx.tree.func(SPLIT, "Split._empty_run")
    body = [st for st in A.body_wo_doc(er) if not A.is_noop_stmt(st)]
    flowp = ([x for x in A.func_params(er) if x != "self"] or ["flow"])[0]
    if len(body) == 1 and isinstance(body[0], ast.Expr) and isinstance(body[0].value, ast.YieldFrom) and A.src(body[0].value.value) == flowp:
        ctx.ok("C03-f", er, "_empty_run yields every value unchanged (yield from flow)")
    elif ctx.require(len(body) == 1 and isinstance(body[0], ast.For) and A.src(body[0].iter) == flowp and not body[0].orelse, "C03-f", er,
                     "Split._empty_run is not a single loop over the flow"):
        tgt = A.src(body[0].target)
        bad = None
        for q in P.loop_body_paths(body[0]):
            ys = q.yields()
            if not (len(ys) == 1 and isinstance(ys[0][1], ast.Yield) and ys[0][1].value is not None and A.src(ys[0][1].value) == tgt
                    and q.end in ("fall", "continue")):
                bad = q
        ctx.check("C03-f", bad is None, er, "Split._empty_run is not the identity: on path [%s] a value is not yielded exactly once as it "
                  "is" % (bad.describe(3) if bad else ""), detail="_empty_run yields every value unchanged", construct="empty-run-body")
    n_types = [s for s in A.walk_local(init) if isinstance(s, ast.Assign) and any(A.is_self_attr(t, "_n_seq_types") for t in s.targets)]
    ok = len(n_types) == 1
    if ok:
        v = n_types[0].value
        # len(<local>) with the one definition `<local> = set(self._seq_types)`, or len(set(self._seq_types)) itself
        if isinstance(v, ast.Call) and A.call_name(v) == "len" and len(v.args) == 1 and isinstance(v.args[0], ast.Name) \
                and v.args[0].id not in A.func_params(init):
            v = A.single_def(init, v.args[0].id)
            ok = v is not None and A.src(v) == "set(self._seq_types)"
        else:
            ok = A.src(v) == "len(set(self._seq_types))"
    if ctx.require(ok, "C03-f", init, "_n_seq_types is not computed as len(set of kinds)"):
        ctx.ok("C03-f", init, "_n_seq_types = len(set of kinds)")
    # common-type methods
    res = ctx.res
    cls = ctx.tree.cls(SPLIT, "Split")
    ms = methods(cls)
    for name, meth, arg in (("_compute", "compute", None), ("_request", "request", None), ("__call__", "__call__", None)):
        f = ms.get(name)
        if not ctx.require(f is not None, "C03-b", cls, "Split.%s vanished" % name):
            continue
        # a branch is started when it is reached: collecting the started branches first (a list of seq() / seq.compute()
        # results) runs the bodies of ordinary (non-generator) branch methods -- and the whole of a Source that is not lazy --
        # before the results of the first branch have been yielded
        eager = None
        for c in A.walk_local(f):
            if isinstance(c, (ast.ListComp, ast.SetComp, ast.DictComp)) and any(K.iter_order(g.iter, "self._seqs") is not None or
                                                                              "self._seqs" in A.src(g.iter) for g in c.generators):
                tv = {x for g in c.generators for x in A.target_names(g.target)}
                if any(isinstance(x, ast.Call) and A.root_name(x.func) in tv for x in ast.walk(c)):
                    eager = c
            if isinstance(c, ast.Call) and res.call_canon(c) in ("builtins.list", "builtins.tuple") and c.args and any(
                    isinstance(x, (ast.GeneratorExp, ast.Call)) and "self._seqs" in A.src(x) and any(
                        isinstance(y, ast.Call) and y is not x for y in ast.walk(x)) for x in c.args[:1]) and any(
                    isinstance(y, ast.Call) and y is not c.args[0] for y in ast.walk(c.args[0])):
                eager = c
            if isinstance(c, ast.Call) and isinstance(c.func, ast.Attribute) and c.func.attr in ("append", "add", "insert"):
                lp = A.enclosing(c, (ast.For,))
                if lp is not None and "self._seqs" in A.src(lp.iter):
                    tv = set(A.target_names(lp.target))
                    if any(isinstance(x, ast.Call) and A.root_name(x.func) in tv for a in c.args for x in ast.walk(a)):
                        eager = c
        if eager is not None:
            ctx.violation("C03-b", eager, "Split.%s starts every branch before it yields the results of the first (`%s`): the output must "
                          "be the complete output of each branch when it is reached, in branch order -- a branch whose %s is an "
                          "ordinary method does all its work (and side effects) ahead of the results of the earlier branches"
                          % (name, A.short(eager, 60), meth), construct="common-eager:%s" % name)
            continue
        loops = [l for l in f.body if isinstance(l, ast.For)]
        if not ctx.require(len(loops) == 1, "C03-b", f, "Split.%s: expected one loop over the branches" % name):
            continue
        if not branch_iteration(ctx, "C03-b", loops[0], "self._seqs", "Split.%s" % name, "common-iter:%s" % name):
            continue
        var = A.src(loops[0].target)
        calls = [c for c in A.walk_body(loops[0].body) if isinstance(c, ast.Call) and (
            (isinstance(c.func, ast.Attribute) and A.src(c.func.value) == var) or A.src(c.func) == var)]
        attrs = sorted({c.func.attr if isinstance(c.func, ast.Attribute) else "__call__" for c in calls})
        ctx.check("C03-b", attrs == [meth], f, "Split.%s calls %s on its branches; the common type offers %s" % (name, attrs, meth),
                  detail="Split.%s calls only %s of every branch" % (name, meth), construct="common:%s" % name)
        for c in calls:
            yields_all_results(ctx, "C03-b", c, "Split.%s" % name, meth, "common-yield:%s" % name)
    f = ms.get("_fill")
    if ctx.require(f is not None, "C03-b", cls, "Split._fill vanished"):
        bad = [c for c in A.walk_local(f) if isinstance(c, ast.Call) and isinstance(c.func, ast.Attribute)
               and c.func.attr in ("compute", "request", "run", "reset")]
        fills = [c for c in A.walk_local(f) if isinstance(c, ast.Call) and isinstance(c.func, ast.Attribute) and c.func.attr == "fill"]
        ctx.check("C03-b", not bad and len(fills) >= 2, f, "Split._fill calls %s" % [A.src(b) for b in bad],
                  detail="Split._fill only fills its branches", construct="common:_fill")


# -- C03-g ---------------------------------------------------------------------------------
def check_zip(ctx):
    res = ctx.res
    fn = ctx.tree.func(ZIP, "Zip._yield")
    outer = [s for s in fn.body if isinstance(s, ast.While)]
    if not ctx.require(len(outer) == 1, "C03-g", fn, "Zip._yield: expected one round loop"):
        return
    loop = outer[0]
    inner = [s for s in loop.body if isinstance(s, ast.For)]
    if not ctx.require(len(inner) >= 1, "C03-g", loop, "Zip._yield: no loop over the branch iterators in a round"):
        return
    params = [p for p in A.func_params(fn) if p != "self"]
    if not branch_iteration(ctx, "C03-g", inner[0], params[0] if params else "results", "a round of Zip._yield", "zip-round-iter"):
        return
    rvar = A.src(inner[0].target)
    # the tuple under construction is the list the values of a round are appended to, inside the loop over the branches
    receivers = sorted({c.func.value.id for c in A.walk_body(inner[0].body) if isinstance(c, ast.Call) and isinstance(c.func, ast.Attribute)
                        and c.func.attr == "append" and isinstance(c.func.value, ast.Name)})
    if not ctx.require(len(receivers) <= 1, "C03-g", inner[0], "Zip._yield appends to several lists in a round (%s): the tuple under "
                       "construction cannot be identified" % ", ".join(receivers)):
        return
    valvar = receivers[0] if receivers else None
    flags = sorted({st.targets[0].id for h in ast.walk(loop) if isinstance(h, ast.ExceptHandler) for st in h.body
                    if isinstance(st, ast.Assign) and A.is_const(st.value, True) and len(st.targets) == 1 and isinstance(st.targets[0], ast.Name)})
    known = {valvar: "value", rvar: "res"}
    for i, name in enumerate(flags):
        known.setdefault(name, "break_while" if i == 0 else "break_while%d" % (i + 1))
    R = Ren(fn, known)
    n = 0
    for p in P.loop_body_paths(loop):
        if p.end in ("raise",):
            continue
        n += 1
        in_handler = [e[1] for e in p.ev if e[0] == "exc"]
        stop = [h for h in in_handler if h.type is not None and res.canon(h.type) == "builtins.StopIteration"]
        ys = p.yields()
        nexts = [c for _, c in p.calls() if res.canon(c.func) == "builtins.next"]
        if stop:
            ok = not ys and p.end in ("break", "return")
            ctx.check("C03-g", ok, loop, "Zip._yield: after a branch is exhausted (StopIteration) the round [%s] %s; it must leave the "
                      "loop without yielding the partial tuple" % (p.describe(4), "yields" if ys else "continues (ends with %s)" % p.end),
                      detail="StopIteration => leave the loop, nothing yielded", construct="zip-stop:%s" % R.describe(p, 3), path=p)
        elif any(e[0] == "iter" and e[1] is inner[0] for e in p.ev):
            # a round in which a branch delivered a value
            ok = len(nexts) == 1 and len(nexts[0].args) == 1 and A.src(nexts[0].args[0]) == rvar
            apps = [c for _, c in p.calls() if isinstance(c.func, ast.Attribute) and c.func.attr == "append" and valvar is not None
                    and A.src(c.func.value) == valvar]
            ok = ok and len(apps) == 1
            ctx.check("C03-g", ok, inner[0], "Zip._yield does not take exactly one value (next(%s)) from each branch per round and keep "
                      "it [%s]" % (rvar, p.describe(4)), detail="one next() per branch per round, appended in order", construct="zip-next:%s" % R.describe(p, 3), path=p)
            if p.end in ("fall", "continue"):
                ctx.check("C03-g", len(ys) == 1, loop, "Zip._yield yields %d values in a complete round [%s]" % (len(ys), p.describe(4)),
                          detail="one tuple per complete round", construct="zip-yield:%s" % R.describe(p, 3), path=p)
    ctx.instances_floor("C03-g", n, 3, "paths through a Zip round")
    # handlers of next(): StopIteration only
    for c in A.walk_local(fn):
        if isinstance(c, ast.Call) and res.canon(c.func) == "builtins.next":
            tr = A.enclosing(c, (ast.Try,))
            ok = tr is not None and len(tr.handlers) == 1 and tr.handlers[0].type is not None and res.canon(tr.handlers[0].type) == "builtins.StopIteration"
            ctx.check("C03-g", ok, c, "next() in Zip._yield is not guarded by `except StopIteration` only", detail="next guarded by except StopIteration",
                      construct="zip-next-guard")
    # the tuple is reset every round
    vstores = [n for n in A.walk_body(loop.body) if isinstance(n, ast.Name) and n.id == valvar and isinstance(n.ctx, ast.Store)]
    if valvar is None:
        # no value is kept at all: reported above (zip-next); which list would have to be reset is not known
        ctx.unknown("C03-g", loop, "Zip._yield: no list collects the values of a round, so its reset cannot be checked")
    elif not vstores:
        ctx.violation("C03-g", loop, "Zip._yield never starts a new tuple inside the round loop: values of earlier rounds stay in it",
                      construct="zip-reset")
    else:
        # the reset is one of the straight-line statements of the round that precede the first compound statement
        # (the branch loop): it is executed in every round, before any value of the round is appended
        real = [st for st in loop.body if not A.is_noop_stmt(st)]
        head = []
        for st in real:
            if isinstance(st, (ast.For, ast.While, ast.If, ast.Try, ast.With)):
                break
            head.append(st)
        first = [st for st in head if isinstance(st, ast.Assign) and len(st.targets) == 1 and isinstance(st.targets[0], ast.Name)
                 and st.targets[0].id == valvar and is_empty_list(st.value)]
        if ctx.require(len(first) == 1, "C03-g", loop, "Zip._yield: the round does not start with `value = []`"):
            ctx.ok("C03-g", first[0], "value = [] at the start of each round")
    # _compute/_request collect the branch results in order and hand them to _yield
    cls = ctx.tree.cls(ZIP, "Zip")
    ms = methods(cls)
    for name, meth in (("_compute", "compute"), ("_request", "request")):
        f = ms.get(name)
        if not ctx.require(f is not None, "C03-g", cls, "Zip.%s vanished" % name):
            continue
        loops = [l for l in f.body if isinstance(l, ast.For)]
        # the collected iterators are the (local) list handed to self._yield
        it = loops[1].iter if len(loops) == 2 else None
        resvar = it.args[0].id if isinstance(it, ast.Call) and len(it.args) == 1 and not it.keywords and isinstance(it.args[0], ast.Name) else None
        if not ctx.require(resvar is not None and A.src_with(it, {resvar: "results"}) == "self._yield(results)", "C03-g", f,
                           "Zip.%s: expected a collecting loop and a loop over self._yield(results)" % name):
            continue
        if not branch_iteration(ctx, "C03-g", loops[0], "self._sequences", "Zip.%s" % name, "zip-iter:%s" % name):
            continue
        var = A.src(loops[0].target)
        calls = [c for c in A.walk_body(loops[0].body) if isinstance(c, ast.Call) and isinstance(c.func, ast.Attribute) and A.src(c.func.value) == var]
        attrs = sorted({c.func.attr for c in calls})
        ctx.check("C03-g", attrs == [meth], f, "Zip.%s calls %s on its branches, not %s" % (name, attrs, meth),
                  detail="Zip.%s zips the %s() iterators of its branches" % (name, meth), construct="zip:%s" % name)
        apps = [c for c in A.walk_body(loops[0].body) if isinstance(c, ast.Call) and isinstance(c.func, ast.Attribute)
                and A.src(c.func.value) == resvar]
        if ctx.require(len(apps) == 1, "C03-g", f, "Zip.%s: results are not collected by one call" % name):
            ctx.check("C03-g", apps[0].func.attr == "append", apps[0], "Zip.%s collects the branch iterators with `%s`, which does not keep "
                      "branch order" % (name, A.short(apps[0], 40)), detail="results.append(...) in branch order", construct="zip-collect:%s" % name)
        yields_all_results(ctx, "C03-g", loops[1].iter, "Zip.%s" % name, "_yield", "zip-yield-results:%s" % name)


def check_none_bufsize(ctx):
    """FillRequest.__init__ validates `bufsize != int(bufsize)`: None raises a bare TypeError.  _get_seq_with_type(seq, bufsize=None) is
    called by Zip without a bufsize and by Split with its own, for which None is documented."""
    res = ctx.res
    fn = ctx.tree.func(SPLIT, "_get_seq_with_type")
    dflt = A.param_defaults(fn)
    nullable = {p for p, d in dflt.items() if isinstance(d, ast.Constant) and d.value is None}
    n = 0
    for p in P.paths_of(fn):
        for i, c in p.calls():
            tgt = res.call_canon(c) or ""
            if not tgt.startswith("lena.core."):
                continue
            for k in c.keywords:
                if k.arg is not None and isinstance(k.value, ast.Name) and k.value.id in nullable:
                    n += 1
                    lits = [(A.norm_src(t), pol) for t, pol in P.Path(p.ev[:i]).literals()]
                    nm = k.value.id
                    ok = ("%s is None" % nm, False) in lits or ("%s is not None" % nm, True) in lits
                    ctx.check("C03-h", ok, c, "_get_seq_with_type passes `%s=%s` to %s on a path [%s] where %s may still be None (its "
                              "default; what Zip always and Split(…, bufsize=None) pass): the constructor demands a natural number, so "
                              "a tuple branch with a fill/request element makes Zip([...]) and Split([...], bufsize=None) raise "
                              "TypeError at construction although the same element given bare is accepted" % (
                                  k.arg, nm, tgt.rsplit(".", 1)[-1], P.Path(p.ev[:i]).describe(3), nm),
                              detail="%s=%s passed only when not None" % (k.arg, nm), construct="none-passed:%s" % k.arg, path=p)
    # the same through a keyword dictionary: kwargs["bufsize"] = bufsize ... Constructor(*seq, **kwargs)
    starred = {A.src(k.value) for c in A.walk_local(fn) if isinstance(c, ast.Call) and (res.call_canon(c) or "").startswith("lena.core.")
               for k in c.keywords if k.arg is None}
    for p in P.paths_of(fn):
        for i, e in enumerate(p.ev):
            if e[0] == "stmt" and isinstance(e[1], ast.Assign) and len(e[1].targets) == 1 and isinstance(e[1].targets[0], ast.Subscript) \
                    and A.src(e[1].targets[0].value) in starred and isinstance(e[1].value, ast.Name) and e[1].value.id in nullable:
                n += 1
                nm = e[1].value.id
                lits = [(A.norm_src(t), pol) for t, pol in P.Path(p.ev[:i]).literals()]
                ok = ("%s is None" % nm, False) in lits or ("%s is not None" % nm, True) in lits
                ctx.check("C03-h", ok, e[1], "_get_seq_with_type stores `%s` into the keyword arguments of a constructor on a path [%s] where "
                          "it may still be None: Zip([...]) and Split([...], bufsize=None) with a fill/request tuple branch raise TypeError "
                          "at construction" % (nm, P.Path(p.ev[:i]).describe(3)), detail="%s stored for the constructor only when not None" % nm,
                          construct="none-passed:%s" % nm, path=p)
    ctx.instances_floor("C03-h", n, 1, "nullable parameters handed to a constructor by the classifier")


def check(ctx):
    check_none_bufsize(ctx)
    K.check_found_by_identity(ctx, "C03-a")
    ctx.instances_floor("C03-a/isinstance", K.check_isinstance_dispatch(ctx, "C03-a", ["lena.core.split", "lena.core.check_sequence_type", "lena.core.sequence", "lena.core.source", "lena.core.fill_compute_seq", "lena.core.fill_request_seq", "lena.core.fill_seq", "lena.core.adapters", "lena.core.meta", "lena.core.lena_sequence"], "a subclass of Source, Sequence, FillComputeSeq ..."), 10, "isinstance tests in lena.core")
    kinds = check_classifier(ctx)
    if kinds is None:
        # the classifier was not understood (reported UNKNOWN): the dispatch tables cannot be compared with it;
        # the protocol rules below are still decided, for the documented kinds
        kinds = set(CAPS)
    else:
        check_kinds(ctx, kinds)
    check_block_loop(ctx, kinds)
    check_final_pass(ctx, kinds)
    check_zip(ctx)


SP = "lena/core/split.py"
ZP = "lena/flow/zip.py"
VARIANTS = [
    M("is-source-exact-type", "lena/core/check_sequence_type.py", "    return isinstance(seq, source.Source)", "    return type(seq) is source.Source", ["C03-a"]),
    M("classifier-sequence-test-removed", "lena/core/split.py", "    elif isinstance(seq, sequence.Sequence):\n        seq_type = \"sequence\"\n", "", ["C03-a"]),
    M("final-missing-sequence", SP, "            elif seq_type == \"sequence\":\n                if flow_was_empty:\n                    for val in seq.run([]):\n                        yield val\n",
      "", ["C03-a", "C03-e"]),
    M("request-on-fill-compute", SP, "                    if stopped:\n                        for result in seq.compute():", "                    if stopped:\n                        for result in seq.request():", ["C03-b"]),
    M("fill-unguarded", SP, "                    for val in buf:\n                        try:\n                            seq.fill(val)\n                        except exceptions.LenaStopFill:\n                            stopped = True\n                            break\n                    if stopped:",
      "                    for val in buf:\n                        seq.fill(val)\n                    if stopped:", ["C03-c"]),
    M("one-del-forgotten", SP, "                    del active_seqs[ind]\n                    del active_seq_types[ind]\n                    n_of_active_seqs -= 1\n                    continue\n                elif seq_type == \"fill_compute\":",
      "                    del active_seqs[ind]\n                    n_of_active_seqs -= 1\n                    continue\n                elif seq_type == \"fill_compute\":", ["C03-d"]),
    M("advance-after-drop", SP, "                        n_of_active_seqs -= 1\n                        continue\n                elif seq_type == \"fill_request\":",
      "                        n_of_active_seqs -= 1\n                        ind += 1\n                        continue\n                elif seq_type == \"fill_request\":", ["C03-d"]),
    M("final-compute-twice", SP, "            elif seq_type == \"fill_compute\":\n                for val in seq.compute():\n                    yield val\n",
      "            elif seq_type == \"fill_compute\":\n                for val in seq.compute():\n                    yield val\n                for val in seq.compute():\n                    yield val\n", ["C03-e"]),
    M("zip-accepts-sequence", ZP, "        else:\n            raise exceptions.LenaNotImplementedError", "        elif seq_type == \"sequence\":\n            pass\n        else:\n            raise exceptions.LenaNotImplementedError", ["C03-a"]),
    M("kind-typo", SP, "                elif seq_type == \"fill_request\":\n                    stopped = False", "                elif seq_type == \"fill_requests\":\n                    stopped = False", ["C03-a"]),
    M("request-only-when-stopped", SP, "                    for result in seq.request():\n                        yield result\n                    if stopped:\n",
      "                    if stopped:\n                        for result in seq.request():\n                            yield result\n", ["C03-b"]),
    M("compute-every-block", SP, "                    if stopped:\n                        for result in seq.compute():\n                            yield result\n",
      "                    for result in seq.compute():\n                        yield result\n                    if stopped:\n", ["C03-b"]),
    M("active-alias", SP, "        active_seqs = self._seqs[:]", "        active_seqs = self._seqs", ["C03-d"]),
    M("revert-fix-classifier-none-bufsize", SP, "            if bufsize is not None:\n                # None (the whole flow for Split, or no bufsize\n                # from Zip) is not a size of a FillRequest.\n                kwargs[\"bufsize\"] = bufsize\n            seq = fill_request_seq.FillRequestSeq(*seq, **kwargs)", "            seq = fill_request_seq.FillRequestSeq(*seq, bufsize=bufsize, **kwargs)", ["C03-h"]),
    M("fc-element-found-by-truth", "lena/core/fill_compute_seq.py", "        if fc_el is None:", "        if not fc_el:", ["C03-a"]),
    M("seq-with-el-found-by-truth", "lena/core/fill_compute_seq.py", "    if el is None:", "    if not el:", ["C03-a"]),
    M("call-starts-all-branches-first", SP, "        for seq in self._seqs:\n            for result in seq():\n                yield result",
      "        flows = [seq() for seq in self._seqs]\n        for result in itertools.chain.from_iterable(flows):\n            yield result", ["C03-b"]),
    M("compute-collects-branches-first", SP, "        for seq in self._seqs:\n            for val in seq.compute():\n                yield val",
      "        flows = []\n        for seq in self._seqs:\n            flows.append(seq.compute())\n        for flow in flows:\n            for val in flow:\n                yield val", ["C03-b"]),
    M("fc-seq-pred-excludes-run-elements", "lena/core/check_sequence_type.py", "        is_fcseq = any(map(is_fill_compute_el, seq))",
      "        is_fcseq = any(is_fill_compute_el(el) and not is_run_el(el) for el in seq)", ["C03-a"]),
    M("fr-seq-pred-filters", "lena/core/check_sequence_type.py", "        is_fcseq = any(map(is_fill_request_el, seq))",
      "        is_fcseq = any(is_fill_request_el(el) for el in seq if not is_fill_compute_el(el))", ["C03-a"]),
    TW("fc-seq-pred-genexp", "lena/core/check_sequence_type.py", "        is_fcseq = any(map(is_fill_compute_el, seq))",
       "        is_fcseq = any(is_fill_compute_el(el) for el in seq)"),
    M("classifier-wrong-kind", SP, "    elif ct.is_fill_request_seq(seq):\n        seq_type = \"fill_request\"", "    elif ct.is_fill_request_seq(seq):\n        seq_type = \"fill_compute\"", ["C03-a"]),
    M("empty-flag-unconditional", SP, "            if orig_buf:\n                flow_was_empty = False\n            else:\n                break",
      "            flow_was_empty = False\n            if not orig_buf:\n                break", ["C03-e"]),
    M("zip-partial-tuple", ZP, "                except StopIteration:\n                    break_while = True\n                    break", "                except StopIteration:\n                    continue", ["C03-g"]),
    M("zip-reversed", ZP, "            for res in results:", "            for res in reversed(results):", ["C03-g"]),
    M("sequence-dropped", SP, "                    for res in seq.run(buf):\n                        yield res\n",
      "                    for res in seq.run(buf):\n                        yield res\n                    del active_seqs[ind]\n                    del active_seq_types[ind]\n                    n_of_active_seqs -= 1\n                    continue\n", ["C03-b"]),
    M("common-compute-reversed", SP, "    def _compute(self):\n        for seq in self._seqs:", "    def _compute(self):\n        for seq in reversed(self._seqs):", ["C03-b"]),
    M("final-request-unguarded", SP, "                if flow_was_empty:\n                    for val in seq.request():\n                        yield val", "                for val in seq.request():\n                    yield val", ["C03-e"]),
    M("stopped-not-reset", SP, "                elif seq_type == \"fill_request\":\n                    stopped = False\n", "                elif seq_type == \"fill_request\":\n", ["C03-c"]),
    M("handler-too-wide", SP, "                        except exceptions.LenaStopFill:\n                            stopped = True\n                            break\n                    # FillRequest",
      "                        except Exception:\n                            stopped = True\n                            break\n                    # FillRequest", ["C03-c"]),
    M("ind-not-restarted", SP, "            # iterate on active sequences\n            ind = 0\n", "            # iterate on active sequences\n", ["C03-d"]),
    M("empty-run-filters", SP, "        for val in flow:\n            yield val\n\n    def run(self, flow):", "        for val in flow:\n            if val:\n                yield val\n\n    def run(self, flow):", ["C03-f"]),
    M("empty-run-not-installed", SP, "        elif self._n_seq_types == 0:\n            self.run = self._empty_run", "        elif self._n_seq_types == 0:\n            pass", ["C03-f"]),
    M("results-filtered", SP, "                    for res in seq.run(buf):\n                        yield res\n", "                    for res in seq.run(buf):\n                        if res is not None:\n                            yield res\n", ["C03-b"]),
    M("source-not-dropped", SP, "                    for val in seq():\n                        yield val\n                    del active_seqs[ind]\n                    del active_seq_types[ind]\n                    n_of_active_seqs -= 1\n                    continue",
      "                    for val in seq():\n                        yield val", ["C03-b"]),
    TW("rename-stopped", SP, "stopped", "was_stopped", nth=-1),
    TW("rename-lists", SP, "active_seq", "live_seq", nth=-1),
    TW("rename-ind", SP, r"\bind\b", "idx", nth=-2),
    TW("yield-from-results", SP, "                    for res in seq.run(buf):\n                        yield res\n", "                    yield from seq.run(buf)\n"),
    TW("loop-test-flipped", SP, "            while ind < n_of_active_seqs:", "            while n_of_active_seqs > ind:"),
    TW("copy-with-list", SP, "        active_seqs = self._seqs[:]", "        active_seqs = list(self._seqs)"),
    TW("rename-empty-flag", SP, "flow_was_empty", "nothing_seen", nth=-1),
]
