"""C13 -- static context seen by an element depends only on what encloses and precedes it."""
import ast

from .. import astutil as A
from .. import paths as P
from ..loader import methods
from ..taint import Interp, Policy, Val, Fresh, IMMUTABLE
from ..selftest.runner import M, TW, V
from . import common as K

PROPERTY = "C13"
EXPLANATION = (
    "Decides the threading/freshness shape clauses of static context: (a) LenaSequence._set_context is a forward "
    "fold over self._seq (set before get per element, the carried context rebound only from el._get_context(), "
    "stored after the loop); (b) the getters return deep copies (LenaSplit: the fresh intersection) and "
    "LenaSplit._set_context hands a per-branch deepcopy made inside the branch loop; (c) every class defining "
    "_set_context keeps only immutable values or deep copies of what it is handed (threading classes and the "
    "producer SetContext excepted by name); (d) every exit of the two setters that leaves _static_context "
    "unassigned stores the caught LenaKeyError in _exc and the getters re-raise it; (e) static-context fields "
    "reach run-time values only in UpdateContextFromStatic.run and only through deepcopy; (f) in LenaSplit every branch "
    "that has _get_context contributes its context to the one list that is intersected (no further test such as "
    "non-emptiness, no early exit, no level limit) and every branch that has _set_context receives the enclosing "
    "context, the only early return being for an empty context; no method other than _set_context writes (update, setdefault, "
    "update_recursively, update_nested) into an object that still shares dictionaries with a stored static-context field -- an alias "
    "or a shallow copy handed to a recursive merge; (g) a sequence constructor that builds an inner sequence from self._data_seq after "
    "the context was threaded threads the whole sequence again afterwards -- on every constructor path, with the inner sequence recognised "
    "also when its elements reach it through locals derived from self._data_seq / self._seq / the arguments or through a module-level helper.  Does not decide the "
    "concrete context seen for a concrete tree."    " Added after the eighth round of seeded changes and the second round of behaviour-preserving changes: (h) MEMORYLESS: no _set_context method reads, before assigning it, a field that it assigns itself."
)
RULES = {
    "C13-h": "MEMORYLESS: no _set_context method reads a field that it writes itself -- what an element makes of the static context "
             "depends on the context it is given now and on what the constructor stored, not on an earlier call",
    "C13-a": "FOLD: LenaSequence._set_context threads the context forwards through self._seq, set before get",
    "C13-b": "FRESH: _get_context returns a deep copy / the fresh intersection; LenaSplit._set_context deep-copies per branch",
    "C13-c": "FRESH: a _set_context consumer keeps only immutable derivations or deep copies of its argument",
    "C13-d": "TYPESTATE: exits that leave _static_context unset store the caught LenaKeyError in _exc; getters re-raise it",
    "C13-e": "no leak: static-context fields reach flow values only in UpdateContextFromStatic.run through deepcopy",
    "C13-g": "RE-THREADING: a sequence constructor that builds an inner sequence from its data elements only (which omits the "
             "context-setting elements) after the context was threaded threads the context of the whole sequence again afterwards",
    "C13-f": "ROUTING: every branch of a split that has a context takes part in the intersection / receives the enclosing "
             "context, the only test on that path being the hasattr() test of the branch",
}

# classes that own or thread the context object they are handed (reason in DESIGN.md C13-c)
THREADING = {
    "lena.core.lena_sequence.LenaSequence": "threads the context through its elements",
    "lena.core.split.LenaSplit": "hands a deep copy to every branch",
    "lena.meta.elements.SetContext": "the producer: owns and updates the object it is handed",
}
FORMATTER = "lena.context.functions.format_context"
INTERSECTION = "lena.context.functions.intersection"
MUTATORS_2 = {"lena.context.functions.update_recursively": (0, 1), "lena.context.functions.update_nested": (1, 2)}


def field_exprs(cls, field):
    out = []
    for fn in methods(cls).values():
        for n in A.walk_local(fn):
            if isinstance(n, ast.Assign):
                for t in n.targets:
                    if A.is_self_attr(t, field):
                        out.append(n.value)
    return out


class FormatterAware(Policy):
    """self.<f>(...) where <f> is a field holding lena.context.format_context(...)
    returns a string."""

    def call_value(self, interp, call, canon, args, state):
        f = call.func
        if A.is_self_attr(f) and self.cls is not None and f.attr not in methods(self.cls):
            exprs = field_exprs(self.cls, f.attr)
            if exprs and all(isinstance(e, ast.Call) and self.res.canon(e.func) == FORMATTER for e in exprs):
                return Val(fresh=IMMUTABLE, origin="formatted string")
        if canon == INTERSECTION:
            return Val(ctx=True, fresh=Fresh(state.loops, call), origin="result of intersection (a deep copy)")
        if isinstance(f, ast.Name) and self.cls is not None:
            # `for key, meth in self._methods: meth(ctx)` where _methods holds only formatters
            for loop in A.ancestors(call):
                if isinstance(loop, ast.For) and f.id in A.target_names(loop.target) and A.is_self_attr(loop.iter) \
                        and loop.iter.attr in formatter_container_fields(self.res, self.cls):
                    return Val(fresh=IMMUTABLE, origin="formatted string")
        return None


def formatter_container_fields(res, cls):
    """Fields assigned a local list all of whose appended items are constants or
    tuples of constants and lena.context.format_context(...) results."""
    cached = getattr(cls, "_formatter_fields", None)
    if cached is not None:
        return cached
    out = set()
    for fn in methods(cls).values():
        for n in A.walk_local(fn):
            if isinstance(n, ast.Assign) and len(n.targets) == 1 and A.is_self_attr(n.targets[0]) \
                    and isinstance(n.value, ast.Name):
                lst = n.value.id
                appended = [c for c in A.walk_local(fn) if isinstance(c, ast.Call) and isinstance(c.func, ast.Attribute)
                            and c.func.attr == "append" and A.src(c.func.value) == lst]
                inits = [a for a in A.walk_local(fn) if isinstance(a, ast.Assign) and any(A.src(t) == lst for t in a.targets)]
                ok = bool(appended) and all(isinstance(a.value, ast.List) and not a.value.elts for a in inits)
                for c in appended:
                    item = c.args[0] if c.args else None
                    elts = item.elts if isinstance(item, ast.Tuple) else [item]
                    for e in elts:
                        if isinstance(e, ast.Constant):
                            continue
                        if isinstance(e, ast.Call) and res.canon(e.func) == FORMATTER:
                            continue
                        if isinstance(e, ast.Name) and _constant_loop_target(fn, c, e.id):
                            continue
                        ok = False
                if ok:
                    out.add(n.targets[0].attr)
    cls._formatter_fields = out
    return out


def _constant_loop_target(fn, node, name):
    """*name* is, at *node*, the target of an enclosing `for ... in <table>` whose table is a tuple/list display (in place or a
    local bound once to one) with a constant at that target's position in every row: the name holds a constant."""
    for loop in A.ancestors(node):
        if not isinstance(loop, ast.For) or name not in A.target_names(loop.target):
            continue
        table = loop.iter
        if isinstance(table, ast.Name):
            table = A.single_def(fn, table.id)
        if not isinstance(table, (ast.Tuple, ast.List)) or not table.elts:
            return False
        if isinstance(loop.target, ast.Name):
            return all(isinstance(r, ast.Constant) for r in table.elts)
        if isinstance(loop.target, (ast.Tuple, ast.List)):
            idx = [i for i, t in enumerate(loop.target.elts) if isinstance(t, ast.Name) and t.id == name]
            return bool(idx) and all(isinstance(r, (ast.Tuple, ast.List)) and len(r.elts) == len(loop.target.elts)
                                     and isinstance(r.elts[idx[0]], ast.Constant) for r in table.elts)
        return False
    return False


def classes_with(ctx, name):
    out = []
    for mod, cls in ctx.tree.classes():
        if name in methods(cls):
            out.append((mod, cls))
    return out


# -- C13-a ---------------------------------------------------------------------

def check_fold(ctx):
    fn = ctx.tree.func("lena.core.lena_sequence", "LenaSequence._set_context")
    params = [p for p in A.func_params(fn) if p != "self"]
    if not ctx.require(len(params) == 1, "C13-a", fn, "unexpected signature"):
        return
    carried = params[0]
    loops = [n for n in A.walk_local(fn) if isinstance(n, ast.For)]
    loops = [l for l in loops if "self._seq" in A.src(l.iter)]
    if not ctx.require(len(loops) == 1, "C13-a", fn, "expected one loop over self._seq"):
        return
    loop = loops[0]
    ok_iter = A.is_self_attr(loop.iter, "_seq")
    ctx.check("C13-a", ok_iter, loop, "LenaSequence._set_context iterates `%s`, not self._seq in document order: an "
              "element would see updates of later elements or miss earlier ones" % A.src(loop.iter),
              detail="iterates self._seq forwards", construct="iter:%s" % A.src(loop.iter))
    if not isinstance(loop.target, ast.Name):
        ctx.unknown("C13-a", loop, "loop target is not a name")
        return
    el = loop.target.id
    sets, gets = [], []
    for n in A.walk_local(loop):
        if isinstance(n, ast.Call) and isinstance(n.func, ast.Attribute) and isinstance(n.func.value, ast.Name) \
                and n.func.value.id == el:
            if n.func.attr == "_set_context":
                sets.append(n)
            elif n.func.attr == "_get_context":
                gets.append(n)
    ctx.check("C13-a", len(sets) == 1 and len(gets) == 1, loop,
              "loop body must call el._set_context and el._get_context once each (found %d/%d)" % (len(sets), len(gets)),
              detail="one set and one get per element", construct="set-get-count")
    if len(sets) != 1 or len(gets) != 1:
        return
    s, g = sets[0], gets[0]
    arg = s.args[0] if s.args else None
    ok_arg = arg is not None and (A.src(arg) == carried or (
        ctx.res.is_call_to(arg, "copy.deepcopy") and A.src(arg.args[0]) == carried))
    ctx.check("C13-a", ok_arg, s, "el._set_context is given `%s`, not the carried context `%s`" % (
        A.src(arg) if arg is not None else "", carried), detail="set receives the carried context")
    # every rebinding of the carried variable is `carried = el._get_context()`
    for n in A.walk_local(fn):
        if isinstance(n, (ast.Assign, ast.AugAssign, ast.For, ast.With)):
            for t in A.assigned_targets(n):
                if carried in A.target_names(t):
                    ok = isinstance(n, ast.Assign) and n.value is g and A.enclosing(n, (ast.For,)) is loop
                    ctx.check("C13-a", ok, n, "the carried context is rebound by `%s` (only `%s = %s._get_context()` "
                              "inside the loop may rebind it)" % (A.short(n, 60), carried, el),
                              detail="carried context rebound only from el._get_context()")
    gstmt = A.enclosing(g, (ast.Assign,))
    ctx.check("C13-a", gstmt is not None and len(gstmt.targets) == 1 and A.src(gstmt.targets[0]) == carried, g,
              "the result of el._get_context() is not stored into the carried context `%s`" % carried,
              detail="get result carried on", construct="get-store")
    # order on every path of the body
    n_paths = 0
    for p in P.loop_body_paths(loop):
        i_s = [i for i, e in enumerate(p.ev) if e[0] in ("stmt", "partial") and any(x is s for x in ast.walk(e[1]))]
        i_g = [i for i, e in enumerate(p.ev) if e[0] in ("stmt", "partial") and any(x is g for x in ast.walk(e[1]))]
        if i_s and i_g:
            n_paths += 1
            ctx.check("C13-a", min(i_s) < min(i_g), loop, "on path [%s] el._get_context() runs before el._set_context(): "
                      "the element's own update would be lost or applied to the wrong context" % p.describe(),
                      detail="set precedes get [%s]" % p.describe(), construct="order:" + p.describe(), path=p)
    # the guards: set under hasattr(el, "_set_context") [and carried]; get under hasattr(el, "_get_context") only
    for call, name in ((s, "_set_context"), (g, "_get_context")):
        conds = enclosing_conditions(call, loop)
        need = 'hasattr(%s, "%s")' % (el, name)
        srcs = set()
        for t, pol in conds:
            for a, apol in A.literals(t, pol):
                srcs.add(("" if apol else "not ") + A.src(a).replace("'", '"'))
        ok = need in srcs and srcs <= {need, carried}
        if name == "_get_context":
            ok = srcs == {need}
        ctx.check("C13-a", ok, call, "el.%s is guarded by {%s}; expected hasattr(el, \"%s\")%s" % (
            name, ", ".join(sorted(srcs)), name, " [and the non-empty carried context]" if name == "_set_context" else " only"),
            detail="el.%s guarded by %s" % (name, sorted(srcs)), construct="guard:%s" % name)
    # stored after the loop
    after = [st for st in fn.body if getattr(st, "lineno", 0) > loop.lineno and st is not loop]
    stores = [st for st in after if isinstance(st, ast.Assign) and any(A.is_self_attr(t, "_static_context") for t in st.targets)]
    ctx.check("C13-a", len(stores) == 1 and A.src(stores[0].value) in (carried, "deepcopy(%s)" % carried, "copy.deepcopy(%s)" % carried),
              fn, "self._static_context is not assigned from the carried context after the loop",
              detail="self._static_context = %s after the loop" % carried, construct="store-after-loop")
    # _static_context assigned nowhere else in the class
    cls = ctx.tree.cls("lena.core.lena_sequence", "LenaSequence")
    for name, m in methods(cls).items():
        for n in A.walk_local(m):
            if isinstance(n, ast.Attribute) and A.is_self_attr(n, "_static_context") and isinstance(n.ctx, ast.Store):
                ctx.check("C13-a", m is fn, n, "LenaSequence.%s writes _static_context" % name,
                          detail="_static_context written only by _set_context", construct="writer:%s" % name)


def enclosing_conditions(node, stop):
    """[(test, polarity)] of the if statements between node and stop."""
    out = []
    child = node
    for a in A.ancestors(node):
        if a is stop:
            break
        if isinstance(a, ast.If):
            if any(child is x for x in a.body):
                out.append((a.test, True))
            elif any(child is x for x in a.orelse):
                out.append((a.test, False))
        child = a
    return out


# -- C13-b ---------------------------------------------------------------------

def check_getters(ctx):
    res = ctx.res
    getters = classes_with(ctx, "_get_context")
    ctx.instances_floor("C13-b", len(getters), 3, "classes defining _get_context")
    for mod, cls in getters:
        fn = methods(cls)["_get_context"]
        c = ctx

        class Pol(FormatterAware):
            def field_value(self, name, state):
                return Val(ctx=True, fresh=None, origin="the stored static context self.%s" % name, labels=[("field", name)])

            def on_return(self, interp, node, val, state):
                bad = [l for l in val.leaves() if l.ctx and l.fresh is None]
                c.check("C13-b", not bad, node,
                        "%s._get_context returns %s without deepcopy: the caller (the enclosing sequence, the next "
                        "SetContext) would update the stored context of this element in place" % (
                            cls.name, bad[0].origin if bad else ""),
                        detail="%s._get_context returns a fresh object [%s]" % (cls.name, state.path.describe(3)),
                        path=state.path)

        pol = Pol(res, cls)
        Interp(pol).run_function(fn)
    # LenaSplit._set_context: per-branch deepcopy
    fn = ctx.tree.func("lena.core.split", "LenaSplit._set_context")
    param = [p for p in A.func_params(fn) if p != "self"][0]
    calls = [n for n in A.walk_local(fn) if isinstance(n, ast.Call) and isinstance(n.func, ast.Attribute)
             and n.func.attr == "_set_context" and not A.is_self_attr(n.func)]
    if not ctx.require(calls, "C13-b", fn, "LenaSplit._set_context: no branch._set_context call found"):
        return
    for call in calls:
        arg = call.args[0] if call.args else None
        loop = A.enclosing(call, (ast.For,))
        fresh = arg is not None and res.is_call_to(arg, "copy.deepcopy") and A.src(arg.args[0]) == param
        if not fresh and isinstance(arg, ast.Name) and loop is not None:
            # local alias assigned inside the loop from a deepcopy
            for n in A.walk_local(loop):
                if isinstance(n, ast.Assign) and any(A.src(t) == arg.id for t in n.targets) \
                        and res.is_call_to(n.value, "copy.deepcopy") and A.src(n.value.args[0]) == param:
                    fresh = True
        ctx.check("C13-b", fresh and loop is not None and A.src(loop.iter) == "self._seqs", call,
                  "LenaSplit._set_context hands `%s` to a branch: branches (and the enclosing sequence) would share one "
                  "context object, a SetContext in one branch changes what its siblings see" % (A.src(arg) if arg is not None else ""),
                  detail="each branch receives deepcopy(%s) made inside the loop over self._seqs" % param)


# -- C13-c ---------------------------------------------------------------------

def check_consumers(ctx):
    res = ctx.res
    consumers = classes_with(ctx, "_set_context")
    ctx.instances_floor("C13-c", len(consumers), 8, "classes defining _set_context")
    ctx.note("consumers", ["%s.%s" % (m.name, c.name) for m, c in consumers])
    for mod, cls in consumers:
        full = "%s.%s" % (mod.name, cls.name)
        fn = methods(cls)["_set_context"]
        if full in THREADING:
            ctx.ok("C13-c", fn, "%s: %s (named threading/producer class)" % (cls.name, THREADING[full]), nontrivial=False)
            continue
        params = [p for p in A.func_params(fn) if p != "self"]
        if not params:
            ctx.unknown("C13-c", fn, "_set_context without a context parameter")
            continue
        cparam = params[0]
        c = ctx
        stored = []

        class Pol(FormatterAware):
            def param_value(self, f, name):
                return Val(ctx=(name == cparam), fresh=None, origin="the context object handed to _set_context",
                           labels=[("param", name)])

            def on_field_store(self, interp, node, field, val, state):
                bad = [l for l in val.leaves() if ("param", cparam) in l.labels and not l.fresh]
                stored.append(field)
                c.check("C13-c", not bad, node,
                        "%s._set_context keeps %s in self.%s without deepcopy: a later SetContext of the same sequence "
                        "updates that very object, changing what this element saw" % (
                            cls.name, bad[0].origin if bad else "", field),
                        detail="%s._set_context stores a copy/immutable derivation in self.%s" % (cls.name, field),
                        path=state.path)

            def on_call(self, interp, call, canon, args, state):
                # mutator on a field with the parameter as argument: self.x.update(context) etc.
                f = call.func
                if isinstance(f, ast.Attribute) and f.attr in ("append", "extend", "update", "add", "insert", "setdefault") \
                        and A.root_name(f.value) == "self":
                    bad = [l for a in args for l in a.leaves() if ("param", cparam) in l.labels and not l.fresh]
                    c.check("C13-c", not bad, call, "%s._set_context puts the handed context object into %s" % (
                        cls.name, A.src(f.value)), detail="mutator receives a copy")

        Interp(Pol(res, cls)).run_function(fn)
        if not stored:
            ctx.ok("C13-c", fn, "%s._set_context stores nothing derived from its argument" % cls.name)


# -- C13-d ---------------------------------------------------------------------

def check_error_surfacing(ctx):
    res = ctx.res
    LKE = "lena.core.exceptions.LenaKeyError"
    for modname, qual in (("lena.core.lena_sequence", "LenaSequence._set_context"),
                          ("lena.meta.elements", "SetContext._set_context")):
        fn = ctx.tree.func(modname, qual)
        n = 0
        for p in P.paths_of(fn):
            assigned = any(isinstance(s, ast.Assign) and any(A.is_self_attr(t, "_static_context") for t in s.targets)
                           for s in p.stmts())
            if assigned or p.end not in ("return", "raise", "fall"):
                continue
            handlers = [e[1] for e in p.ev if e[0] == "exc"]
            in_lke = [h for h in handlers if h.type is not None and res.canon(h.type) == LKE]
            if not handlers:
                # a path that neither assigns nor went through a handler: e.g. early return
                ctx.violation("C13-d", fn, "%s: path [%s] ends without assigning _static_context and without recording an "
                              "exception" % (qual, p.describe()), construct="silent-exit:" + p.describe(), path=p)
                continue
            exc_store = [s for s in p.stmts() if isinstance(s, ast.Assign) and any(A.is_self_attr(t, "_exc") for t in s.targets)]
            names = {h.name for h in in_lke if h.name}
            ok = bool(in_lke) and exc_store and all(isinstance(s.value, ast.Name) and s.value.id in names for s in exc_store)
            n += 1
            ctx.check("C13-d", ok, fn, "%s: path [%s] leaves _static_context unset without storing the caught LenaKeyError in "
                      "self._exc: a later _get_context raises AttributeError (or a stale error) instead of naming the key" % (
                          qual, p.describe()),
                      detail="%s: unset exit stores the caught LenaKeyError [%s]" % (qual, p.describe()),
                      construct="exit:" + p.describe(), path=p)
        ctx.instances_floor("C13-d/%s" % qual, n, 1, "exits that leave _static_context unset")
    # an unresolvable key surfaces when the context is *requested*: the sequence's setter records the failure of an
    # element's _set_context and returns normally (LenaSplit._set_context relies on that to reach the sibling branches)
    fn = ctx.tree.func("lena.core.lena_sequence", "LenaSequence._set_context")
    n_set = 0
    for p in P.paths_of(fn):
        for i, e in enumerate(p.ev):
            if e[0] == "partial" and any(isinstance(c, ast.Call) and isinstance(c.func, ast.Attribute)
                                         and c.func.attr == "_set_context" for c in A.walk_local(e[1])):
                if i + 1 < len(p.ev) and p.ev[i + 1][0] == "exc":
                    n_set += 1
                    ctx.check("C13-d", p.end != "raise", fn, "LenaSequence._set_context re-raises the LenaKeyError of an element's "
                              "_set_context [%s]: the error must be recorded and surface when the context is requested; raising here "
                              "aborts LenaSplit._set_context, so the sibling branches after the failing one never receive the "
                              "enclosing context" % p.describe(), detail="failure of el._set_context is recorded, the setter returns",
                              construct="set-failure-raises", path=p)
    ctx.instances_floor("C13-d/set-failure", n_set, 1, "handler paths of el._set_context")
    for modname, qual in (("lena.core.lena_sequence", "LenaSequence._get_context"),
                          ("lena.meta.elements", "SetContext._get_context")):
        fn = ctx.tree.func(modname, qual)
        raises = [n for n in A.walk_local(fn) if isinstance(n, ast.Raise)]
        ok = any(r.exc is not None and A.src(r.exc) == "self._exc" and isinstance(A.enclosing(r, (ast.ExceptHandler,)), ast.ExceptHandler)
                 and res.canon(A.enclosing(r, (ast.ExceptHandler,)).type) == "builtins.AttributeError" for r in raises)
        ctx.check("C13-d", ok, fn, "%s does not re-raise the stored exception self._exc when _static_context is missing" % qual,
                  detail="%s re-raises self._exc" % qual, construct="reraise")
    # the formatter raises LenaKeyError for a missing key: get_recursively without default
    fc = ctx.tree.func("lena.context.functions", "format_context")
    inner = [n for n in ast.walk(fc) if isinstance(n, ast.FunctionDef) and n is not fc]
    calls = [c for f in inner for c in ast.walk(f) if isinstance(c, ast.Call)
             and res.canon(c.func) == "lena.context.functions.get_recursively"]
    ctx.check("C13-d", bool(calls) and all(len(c.args) == 2 and not c.keywords for c in calls), fc,
              "format_context's formatter looks keys up with a default: a missing key no longer raises LenaKeyError",
              detail="formatter uses get_recursively(context, arg) without default", construct="formatter-lookup")


# -- C13-e ---------------------------------------------------------------------

LEAK_EXEMPT = {"_get_context", "_set_context", "__eq__", "__repr__", "__init__", "__ne__"}


def static_fields(ctx, cls):
    """Fields assigned in _set_context from context-kind values."""
    fn = methods(cls).get("_set_context")
    if fn is None:
        return set()
    params = [p for p in A.func_params(fn) if p != "self"]
    if not params:
        return set()
    cparam = params[0]
    out = set()

    class Pol(FormatterAware):
        def param_value(self, f, name):
            return Val(ctx=(name == cparam), origin="static context", labels=[("param", name)])

        def on_field_store(self, interp, node, field, val, state):
            if any(l.ctx and l.fresh != IMMUTABLE for l in val.leaves()):
                out.add(field)

    Interp(Pol(ctx.res, cls)).run_function(fn)
    return out


def check_no_leak(ctx):
    res = ctx.res
    n_cls = 0
    for mod, cls in classes_with(ctx, "_set_context"):
        sf = static_fields(ctx, cls)
        if not sf:
            continue
        n_cls += 1
        full = "%s.%s" % (mod.name, cls.name)
        for name, fn in methods(cls).items():
            if name in LEAK_EXEMPT:
                continue
            reads = [n for n in A.walk_local(fn) if isinstance(n, ast.Attribute) and A.is_self_attr(n) and n.attr in sf
                     and isinstance(n.ctx, ast.Load)]
            if not reads:
                continue
            allowed_sink = full == "lena.meta.elements.UpdateContextFromStatic" and name == "run"
            c = ctx

            class Pol(FormatterAware):
                def field_value(self, fname, state):
                    return Val(ctx=fname in sf, fresh=None, origin="static context field self.%s" % fname,
                               labels=[("static", fname)] if fname in sf else [])

                def _static(self, v):
                    return [l for l in v.leaves() if any(lab[0] == "static" for lab in l.labels) and l.fresh != IMMUTABLE]

                def on_yield(self, interp, node, val, state):
                    self._out(node, val, state, "yields")

                def on_return(self, interp, node, val, state):
                    self._out(node, val, state, "returns")

                def _out(self, node, val, state, verb):
                    st = self._static(val)
                    if allowed_sink:
                        return
                    c.check("C13-e", not st, node, "%s.%s %s a value containing %s: static context leaks into the flow "
                            "(only UpdateContextFromStatic may do that)" % (cls.name, name, verb, st[0].origin if st else ""),
                            detail="%s.%s: nothing static %s" % (cls.name, name, verb[:-1] + "ed"), path=state.path)

                def on_call(self, interp, call, canon, args, state):
                    idx = MUTATORS_2.get(canon)
                    recv = src = None
                    if idx is not None and len(args) > max(idx):
                        recv, src = args[idx[0]], args[idx[1]]
                    elif isinstance(call.func, ast.Attribute) and call.func.attr in ("update", "setdefault") and args:
                        recv, src = interp.ev(call.func.value, state), args[-1]
                    if recv is None:
                        return
                    st_src = self._static(src)
                    st_recv = self._static(recv)
                    # writing into an object that still shares (sub-)dictionaries with the stored static context:
                    # an alias, or a shallow copy handed to a recursive merge
                    shared = [l for l in st_recv if not l.fresh]
                    if shared and name not in ("_set_context",):
                        recursive = idx is not None
                        alias = not recv.fresh and any(lab[0] == "static" for lab in recv.labels)
                        if recursive or alias:
                            c.violation("C13-e", call, "%s.%s writes into `%s`, which shares dictionaries with the stored static context "
                                        "(%s): what a value brings at run time becomes part of what the element was given when the "
                                        "sequence was built, and the next value sees it" % (
                                            cls.name, name, A.short(call.args[0] if idx is not None and call.args else call.func.value, 40),
                                            shared[0].origin), construct="static-written:%s.%s" % (cls.name, name), path=state.path)
                            return
                    if not st_src or st_recv:
                        return
                    if allowed_sink:
                        shared = [l for l in st_src if not l.fresh]
                        c.check("C13-e", not shared, call, "UpdateContextFromStatic.run merges the stored static context into "
                                "a value without deepcopy: every value (and the element) would share its sub-dictionaries",
                                detail="UpdateContextFromStatic.run merges deepcopy(self._context)", path=state.path)
                        return
                    c.violation("C13-e", call, "%s.%s merges %s into a run-time context: static context leaks into the flow "
                                "(only UpdateContextFromStatic may do that)" % (cls.name, name, st_src[0].origin), path=state.path)

            Interp(Pol(res, cls)).run_function(fn)
            ctx.ok("C13-e", fn, "%s.%s reads static field(s) %s: leak analysis run" % (cls.name, name, sorted({r.attr for r in reads})),
                   nontrivial=False)
    ctx.instances_floor("C13-e", n_cls, 3, "classes holding static context in fields")
    # _static_context is read only by the getters/setters
    for mod, cls in ctx.tree.classes():
        for name, fn in methods(cls).items():
            for n in A.walk_local(fn):
                if isinstance(n, ast.Attribute) and n.attr == "_static_context" and isinstance(n.ctx, ast.Load):
                    ctx.check("C13-e", name in ("_get_context", "_set_context"), n,
                              "%s.%s reads _static_context outside the getter/setter" % (cls.name, name),
                              detail="_static_context read only in %s.%s" % (cls.name, name))


# -- C13-f ---------------------------------------------------------------------

def check_split_routing(ctx):
    """LenaSplit: the intersection is over the contexts of *all* branches that have one (an empty context of one
    branch makes the intersection empty: it is not skipped), and the enclosing context reaches every branch."""
    res = ctx.res
    for meth, callee, what in (("_get_context", "_get_context", "takes part in the intersection"),
                               ("_set_context", "_set_context", "receives the enclosing context")):
        fn = ctx.tree.func("lena.core.split", "LenaSplit." + meth)
        loops = [l for l in A.walk_local(fn) if isinstance(l, ast.For)]
        comps = [c for c in A.walk_local(fn) if isinstance(c, ast.ListComp)]
        if meth == "_get_context" and not loops and len(comps) == 1 and len(comps[0].generators) == 1 \
                and isinstance(comps[0].generators[0].target, ast.Name):
            # the collecting loop as one expression: [seq._get_context() for seq in self._seqs if hasattr(seq, '_get_context')]
            g = comps[0].generators[0]
            var = g.target.id
            order = K.iter_order(g.iter, "self._seqs")
            if order == "unknown":
                ctx.unknown("C13-f", comps[0], "LenaSplit.%s iterates `%s`" % (meth, A.src(g.iter)))
                continue
            ctx.check("C13-f", order == "forward", comps[0], "LenaSplit.%s iterates `%s`, not every branch of self._seqs" % (meth, A.src(g.iter)),
                      detail="LenaSplit.%s visits every branch" % meth, construct="%s-iter" % meth)
            filt = [t for i in g.ifs for t, pol in A.literals(i, True)]
            pols = [pol for i in g.ifs for t, pol in A.literals(i, True)]
            only_has = len(filt) == 1 and pols == [True] and isinstance(filt[0], ast.Call) and res.call_canon(filt[0]) == "builtins.hasattr" \
                and len(filt[0].args) == 2 and A.src(filt[0].args[0]) == var and A.const(filt[0].args[1]) == callee
            elt = comps[0].elt
            okc = only_has and isinstance(elt, ast.Call) and isinstance(elt.func, ast.Attribute) and elt.func.attr == callee \
                and A.src(elt.func.value) == var and not elt.args and not elt.keywords
            ctx.check("C13-f", okc, comps[0], "LenaSplit.%s: `%s` does not collect the context of every branch that has %s (and only the "
                      "hasattr test may exclude a branch: an empty context of one branch makes the common context empty)"
                      % (meth, A.short(comps[0], 80), callee), detail="LenaSplit.%s: a branch with %s %s" % (meth, callee, what),
                      construct="%s-comp" % meth)
            comp_holder = comps[0]
            continue
        if not ctx.require(len(loops) == 1 and isinstance(loops[0].target, ast.Name), "C13-f", fn,
                           "LenaSplit.%s: expected one loop over the branches" % meth):
            continue
        loop = loops[0]
        var = loop.target.id
        order = K.iter_order(loop.iter, "self._seqs")
        if order == "unknown":
            ctx.unknown("C13-f", loop, "LenaSplit.%s iterates `%s`" % (meth, A.src(loop.iter)))
            continue
        ctx.check("C13-f", order == "forward", loop, "LenaSplit.%s iterates `%s`, not every branch of self._seqs" % (meth, A.src(loop.iter)),
                  detail="LenaSplit.%s visits every branch" % meth, construct="%s-iter" % meth)
        is_has = lambda t: isinstance(t, ast.Call) and res.call_canon(t) == "builtins.hasattr" and len(t.args) == 2 \
            and A.src(t.args[0]) == var and A.const(t.args[1]) == callee
        n = 0
        for p in P.loop_body_paths(loop):
            lits = p.literals()
            has = [pol for t, pol in lits if is_has(t)]
            other = [(t, pol) for t, pol in lits if not is_has(t)]
            calls = [c for _, c in p.calls() if isinstance(c.func, ast.Attribute) and c.func.attr == callee and A.src(c.func.value) == var]
            if has and has[-1] is False:
                continue
            n += 1
            ok = len(calls) == 1 and not other and p.end in ("fall", "continue")
            if ok and meth == "_get_context":
                apps = [c for _, c in p.calls() if isinstance(c.func, ast.Attribute) and c.func.attr in ("append",)
                        and len(c.args) == 1]
                stored = False
                for a in apps:
                    v = a.args[0]
                    if v is calls[0]:
                        stored = True
                    elif isinstance(v, ast.Name):
                        ds = [s2 for s2 in p.stmts() if isinstance(s2, ast.Assign) and any(isinstance(t, ast.Name) and t.id == v.id for t in s2.targets)]
                        stored = stored or (len(ds) == 1 and ds[0].value is calls[0])
                ok = stored and len(apps) == 1
            why = "on the path [%s] a branch that has %s %s" % (
                p.describe(4), callee, "is called %d times" % len(calls) if len(calls) != 1 else
                ("is subject to a further test (%s): a branch with an empty (or otherwise special) context is skipped, although an "
                 "empty context of one branch makes the common context empty" % ", ".join(A.src(t) for t, _ in other) if other
                 else "does not contribute its context to the list that is intersected"))
            ctx.check("C13-f", ok, loop, "LenaSplit.%s: %s" % (meth, why),
                      detail="LenaSplit.%s [%s]: a branch with %s %s" % (meth, p.describe(3), callee, what),
                      construct="%s-path:%s" % (meth, p.describe(4)), path=p)
        ctx.instances_floor("C13-f/" + meth, n, 1, "paths of the branch loop of LenaSplit.%s on which the branch has %s" % (meth, callee))
    # the intersection is over exactly that list
    fn = ctx.tree.func("lena.core.split", "LenaSplit._get_context")
    inter = [c for c in A.walk_local(fn) if isinstance(c, ast.Call) and res.call_canon(c) == "lena.context.functions.intersection"]
    apps = [c for c in A.walk_local(fn) if isinstance(c, ast.Call) and isinstance(c.func, ast.Attribute) and c.func.attr == "append"]
    lcs = [a for a in A.walk_local(fn) if isinstance(a, ast.Assign) and isinstance(a.value, ast.ListComp) and len(a.targets) == 1]
    collected = A.src(apps[0].func.value) if len(apps) == 1 else (A.src(lcs[0].targets[0]) if (not apps and len(lcs) == 1) else None)
    ok = len(inter) == 1 and collected is not None and len(inter[0].args) == 1 and isinstance(inter[0].args[0], ast.Starred) \
        and A.src(inter[0].args[0].value) == collected and not inter[0].keywords \
        and A.enclosing(inter[0], (ast.For, ast.While, ast.If)) is None
    ctx.check("C13-f", ok, fn, "LenaSplit._get_context does not return intersection(*<contexts of all branches>) (level-limited or "
              "partial intersection)", detail="common context = intersection of all collected contexts", construct="get-intersection")
    # the early return of _set_context only for an empty context
    fn = ctx.tree.func("lena.core.split", "LenaSplit._set_context")
    param = [p for p in A.func_params(fn) if p != "self"][0]
    for r in [r for r in A.walk_local(fn) if isinstance(r, ast.Return)]:
        conds = enclosing_conditions(r, fn)
        ok = len(conds) == 1 and A.src(conds[0][0]) == "not %s" % param and conds[0][1] is True
        ctx.check("C13-f", ok, r, "LenaSplit._set_context returns early under `%s`: branches are left without the enclosing "
                  "context" % " and ".join(A.src(t) for t, _ in conds), detail="early return only for an empty context",
                  construct="set-early-return")


# -- C13-g ---------------------------------------------------------------------

def check_rethreading(ctx):
    """LenaSequence.__init__ threads the static context through *all* its arguments (self._seq) and leaves the data elements in
    self._data_seq.  Constructing another sequence from elements of self._data_seq runs LenaSequence.__init__ -- hence
    _set_context({}) -- over those very element objects again, this time without the SetContext elements that stood between
    them: what they saw from the enclosing sequence is overwritten by a context that ignores preceding context elements.
    The whole sequence must therefore be threaded once more after the last such construction."""
    res = ctx.res
    seq_classes = {"lena.core.sequence.Sequence", "lena.core.fill_seq.FillSeq", "lena.core.fill_compute_seq.FillComputeSeq",
                   "lena.core.fill_request_seq.FillRequestSeq", "lena.core.source.Source"}
    def element_names(fn):
        """Locals of fn that hold (some of) the elements of the sequence: derived from self._data_seq / self._seq / the
        constructor's arguments by assignment, iteration or append/extend."""
        params = [x for x in A.func_params(fn) if x != "self"]
        tainted = set(params)

        def is_src(e):
            return any((isinstance(x, ast.Attribute) and (A.is_self_attr(x, "_data_seq") or A.is_self_attr(x, "_seq")))
                       or (isinstance(x, ast.Name) and x.id in tainted) for x in ast.walk(e))
        changed = True
        while changed:
            changed = False
            for st in A.walk_local(fn):
                new = set()
                if isinstance(st, ast.Assign) and is_src(st.value):
                    for tg in st.targets:
                        new.update(A.target_names(tg))
                elif isinstance(st, ast.For) and is_src(st.iter):
                    new.update(A.target_names(st.target))
                elif isinstance(st, ast.Call) and isinstance(st.func, ast.Attribute) and st.func.attr in ("append", "extend", "insert") \
                        and isinstance(st.func.value, ast.Name) and any(is_src(a) for a in st.args):
                    new.add(st.func.value.id)
                if new - tainted:
                    tainted |= new
                    changed = True
        return tainted, is_src

    def builds_partial(fn):
        """Calls in fn that construct a LenaSequence subclass from elements of the sequence."""
        tainted, is_src = element_names(fn)
        return [c for c in A.walk_local(fn) if isinstance(c, ast.Call) and res.call_canon(c) in seq_classes and any(is_src(a) for a in c.args)]

    # module-level helpers of lena.core that do so on behalf of a constructor (they take the sequence as a parameter)
    helpers = {}
    for mod, fn in ctx.tree.functions():
        if mod.name.startswith("lena.core.") and A.enclosing_func(fn) is None and A.enclosing_class(fn) is None and builds_partial(fn):
            helpers[mod.name + "." + fn.name] = fn
    ctx.note("rethread_helpers", sorted(helpers))
    n = n_partial = 0
    for mod, cls in ctx.tree.classes():
        if not mod.name.startswith("lena.core."):
            continue
        t = res.class_target(mod.name, cls.name)
        if not any(c.name == "lena.core.lena_sequence.LenaSequence" for c in res.mro(t)[1:]):
            continue
        init = methods(cls).get("__init__")
        if init is None:
            continue
        n += 1
        mine = {id(c) for c in builds_partial(init)}
        reported = False
        for p in P.paths_of(init):
            if p.end == "raise" or reported:
                continue
            threads = []
            partial = []
            for i, c in p.calls():
                if isinstance(c.func, ast.Attribute) and c.func.attr == "__init__" and isinstance(c.func.value, ast.Call) \
                        and A.call_name(c.func.value) == "super":
                    threads.append(i)
                elif A.src(c.func) == "self._set_context":
                    threads.append(i)
                elif id(c) in mine or res.call_canon(c) in helpers:
                    partial.append((i, c))
            # a thread that was attempted and ended in the tolerated LenaKeyError (a formatting key is missing: the context is
            # requested later and raises then) is a thread
            for i, e in enumerate(p.ev):
                if e[0] == "partial" and any(isinstance(c, ast.Call) and A.src(c.func) == "self._set_context" for c in A.walk_local(e[1])):
                    threads.append(i)
            if not partial:
                continue
            n_partial += 1
            last = max(i for i, _ in partial)
            ok = any(t2 > last for t2 in threads)
            if not ok:
                reported = True
            ctx.check("C13-g", ok, partial[-1][1], "%s.__init__ builds `%s` from elements of the sequence after the static context was threaded "
                      "and, on the path [%s], does not thread it again: those elements are handed a context computed without the context "
                      "elements (SetContext) of this sequence, e.g. %s(first, Sequence(SetContext('b', 2)), SetContext('b', 3), "
                      "Write('{{b}}')) leaves the Write with b = 2" % (cls.name, A.short(partial[-1][1], 50), p.describe(3), cls.name),
                      detail="%s.__init__ re-threads the context after building a sequence of its elements [%s]" % (cls.name, p.describe(2)),
                      construct="rethread:%s" % cls.name, path=p)
    ctx.instances_floor("C13-g/partial", n_partial, 3, "constructor paths that build an inner sequence")
    ctx.instances_floor("C13-g", n, 5, "constructors of LenaSequence subclasses in lena.core")


def check_memoryless(ctx):
    """C13-h.  _set_context is called again whenever an enclosing sequence is built (a Source re-threads its tail, an outer
    Sequence sets the context of an inner one): the last call must win.  A _set_context that consults the field it assigns
    (Cache testing its already formatted _filename for '{' instead of the template) freezes the result of the first call."""
    n = 0
    bad = 0
    for mod, fn in ctx.tree.functions():
        if fn.name != "_set_context" or A.enclosing_class(fn) is None:
            continue
        n += 1
        written = {}
        for a in A.walk_local(fn):
            if isinstance(a, (ast.Assign, ast.AugAssign)):
                for t in A.assigned_targets(a):
                    if A.is_self_attr(t):
                        written.setdefault(t.attr, a)
        for p in P.paths_of(fn):
            done = set()
            for i, node in p.exprs():
                for x in A.walk_local(node):
                    if A.is_self_attr(x) and isinstance(x.ctx, ast.Load) and x.attr in written and x.attr not in done:
                        key = (A.qualname(fn), x.attr)
                        if key in _MEM_SEEN:
                            continue
                        _MEM_SEEN.add(key)
                        bad += 1
                        ctx.violation("C13-h", x, "%s reads self.%s [%s] before assigning it in the same call: the field holds what an "
                                      "earlier _set_context left there, so once it has been set the static context given later (by an "
                                      "enclosing sequence built afterwards) is judged by the old result and may be ignored -- the element's "
                                      "context no longer depends only on what encloses and precedes it" % (
                                          A.qualname(fn), x.attr, p.describe(3)), construct="set-context-reads-own-output:%s" % x.attr, path=p)
                if isinstance(node, (ast.Assign, ast.AugAssign)):
                    for t in A.assigned_targets(node):
                        if A.is_self_attr(t) and isinstance(node, ast.Assign):
                            done.add(t.attr)
    _MEM_SEEN.clear()
    ctx.instances_floor("C13-h", n, 7, "_set_context methods")
    if not bad:
        ctx.ok("C13-h", ("lena", "<tree>"), "%d _set_context methods: none reads a field it assigns" % n)


_MEM_SEEN = set()


def check(ctx):
    check_memoryless(ctx)
    check_fold(ctx)
    check_rethreading(ctx)
    check_split_routing(ctx)
    check_getters(ctx)
    check_consumers(ctx)
    check_error_surfacing(ctx)
    check_no_leak(ctx)


VARIANTS = [
    M("cache-set-context-tests-own-output", "lena/flow/cache.py", "        if '{' not in self._orig_filename:", "        if '{' not in self._filename:", ["C13-h"]),
    M("source-rethread-only-when-context-known", "lena/core/source.py", "            try:\n                self._set_context({})\n            except LenaKeyError:\n                pass\n        else:\n            self._tail = ()",
      "            if hasattr(self, \"_static_context\"):\n                try:\n                    self._set_context({})\n                except LenaKeyError:\n                    pass\n        else:\n            self._tail = ()", ["C13-g"]),
    M("revert-fix-fill-compute-seq-rethread", "lena/core/fill_compute_seq.py", "        try:\n            self._set_context({})\n        except exceptions.LenaKeyError:\n            pass\n", "", ["C13-g"]),
    M("fill-request-seq-threads-first", "lena/core/fill_request_seq.py", "        super(FillRequestSeq, self).__init__(*self._data_seq)\n", "", ["C13-g"]),
    M("source-tail-not-rethreaded", "lena/core/source.py", "            try:\n                self._set_context({})\n            except LenaKeyError:\n                pass\n        else:\n            self._tail = ()", "        else:\n            self._tail = ()", ["C13-g"]),
    M("makefilename-shallow-merge", "lena/output/make_filename.py", "                full_context = deepcopy(self._context)\n                # runtime context takes precedence over the static one\n                full_context.update(context)", "                full_context = self._context.copy()\n                lena.context.update_recursively(full_context, context)", ["C13-e"]),
    M("makefilename-alias-update", "lena/output/make_filename.py", "                full_context = deepcopy(self._context)\n", "                full_context = self._context\n", ["C13-e"]),
    TW("makefilename-deep-merge", "lena/output/make_filename.py", "                full_context.update(context)", "                lena.context.update_recursively(full_context, deepcopy(context))"),
    M("split-skips-empty-context", "lena/core/split.py", "                contexts.append(seq._get_context())", "                context = seq._get_context()\n                if context:\n                    contexts.append(context)", ["C13-f"]),
    M("split-first-branch-only", "lena/core/split.py", "                contexts.append(seq._get_context())\n", "                contexts.append(seq._get_context())\n                break\n", ["C13-f"]),
    M("split-set-skips-first", "lena/core/split.py", "        for seq in self._seqs:\n            if hasattr(seq, \"_set_context\"):", "        for seq in self._seqs[1:]:\n            if hasattr(seq, \"_set_context\"):", ["C13-f"]),
    M("split-intersection-level", "lena/core/split.py", "        context = lena.context.intersection(*contexts)", "        context = lena.context.intersection(*contexts, level=1)", ["C13-f"]),
    TW("split-get-local", "lena/core/split.py", "                contexts.append(seq._get_context())", "                branch_context = seq._get_context()\n                contexts.append(branch_context)"),
    M("fold-reversed", "lena/core/lena_sequence.py", "        for el in self._seq:\n            if hasattr(el, \"_set_context\")",
      "        for el in reversed(self._seq):\n            if hasattr(el, \"_set_context\")", ["C13-a"]),
    M("getter-no-copy", "lena/core/lena_sequence.py", "        return deepcopy(sc)", "        return sc", ["C13-b"]),
    M("setcontext-getter-no-copy", "lena/meta/elements.py", "        return deepcopy(sc)", "        return sc", ["C13-b"]),
    M("split-shared-copy", "lena/core/split.py", "seq._set_context(deepcopy(context))", "seq._set_context(context)", ["C13-b"]),
    M("storecontext-alias", "lena/meta/elements.py", "self.context = deepcopy(context)", "self.context = context", ["C13-c"]),
    M("exc-not-stored", "lena/core/lena_sequence.py", "                    self._exc = exc\n                    return",
      "                    return", ["C13-d"]),
    M("set-failure-raises", "lena/core/lena_sequence.py", "                    self._exc = exc\n                    return",
      "                    self._exc = exc\n                    raise exc", ["C13-d"]),
    M("ucfs-no-copy", "lena/meta/elements.py", "update_recursively(context, deepcopy(self._context))",
      "update_recursively(context, self._context)", ["C13-e"]),
    M("makefilename-leak", "lena/output/make_filename.py", "                update = {\"output\": {key: res}}\n",
      "                update = {\"output\": {key: res}}\n                lena.context.update_recursively(context, full_context)\n", ["C13-e"]),
    TW("rename-local", "lena/core/lena_sequence.py", "            sc = self._static_context\n        except AttributeError:\n            # self._exc is present",
       "            sc = self._static_context\n        except AttributeError:\n            # renamed comment"),
    TW("getter-copy-module", "lena/meta/elements.py", "        return deepcopy(sc)", "        import copy\n        return copy.deepcopy(sc)"),
]
