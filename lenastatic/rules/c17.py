"""C17 -- flow iterators equal their Python reference (structural clauses only)."""
import ast
import re

from .. import astutil as A
from .. import paths as P
from ..selftest.runner import M, TW, V
from . import common as K

PROPERTY = "C17"
EXPLANATION = (
    "Decides only the structural clauses of the statement -- delegation, orientation and rejection -- and NOT the index "
    "arithmetic of the negative-index algorithm, which is the bulk of the property and is a relation between integers along "
    "loops (no verdict is given on it).  Decided: "
    "(a) DELEGATION: for non-negative arguments Slice keeps `islice(iterable, *args)` with the constructor's own argument tuple "
    "(guarded by `all(v is None or v >= 0 ...)`), run() applies it to the flow, and the indices selected by fill_into are that "
    "same islice applied to itertools.count(0); Chain.__call__ yields from itertools.chain(*<the constructor's iterables>); "
    "CountFrom.__call__ from itertools.count(<start>, <step>) with the fields bound from the parameters of the same name; "
    "Reverse.run materialises the flow with list() and hands the items out with pop() from the end until IndexError; "
    "(b) REJECTION: a ValueError of islice at construction is converted to LenaValueError; on the negative path the "
    "step is normalised from slice(*args), `step <= 0 or int(step) != step` raises LenaValueError before run is bound, and a step "
    "other than 1 wraps the negative generator in islice(<generator>, None, None, step); "
    "(c) STOP: fill_into raises LenaStopFill only in the handler of StopIteration of next(self._indices), fills exactly when "
    "_index == _next_index and advances _index once on every normal path; the path that raises LenaStopFill writes no state (the stop "
    "is final); "
    "(d) ORIENTATION (order preservation): every deque of Slice._run_negative_islice and of RunningChunkBy.run is used first-in "
    "first-out -- values enter on one side (append / the constructor's iterable / appendleft) and are taken or read from the "
    "opposite one (popleft / iteration from the left / pop) -- a deque used last-in first-out would reverse the values; "
    "(e) WINDOW: RunningChunkBy.run fills the first window with deque(islice(flow, n), maxlen=n) for one and the same n = "
    "self._cs, then for every further value yields the window before appending the value, yields the last window only under "
    "len(window) == n, and its two container branches differ only in how the window is handed to the container; "
    "run() writes nothing through self (the window is a local made per run); "
    "(f) EXHAUSTION: in the flow elements (lena/flow/iterators.py, lena/flow/elements.py, lena/core/adapters.py, lena/core/split.py) "
    "no next(<iterator>, <constant>) uses a constant default (None, False, 0, '') as the end-of-flow marker: flows may contain these "
    "values.  "
    "(g) no quiet handler of the iterator elements (except IndexError: return) covers a pull from the incoming flow.  "
    "(h) OPTION PROVENANCE (added after the eighth round of seeded changes): an option of the elements of lena.flow.iterators / "
    "lena.flow.elements stored under its parameter's name is computed from that parameter alone.  "
    "Does not decide: that the seven branches of the negative-index algorithm select exactly xs[start:stop:step]; the stop "
    "point of fill_into relative to later indices; window contents.")
LEVEL_NOTE = (
    "Partial claim.  The property is an exhaustive equality with Python slicing; only its shape clauses (which call is "
    "delegated to, which exception leaves, which side of a deque is used) are decided here.  A change confined to the index "
    "arithmetic of Slice._run_negative_islice is outside what this check can see; DESIGN.md section 5 says so."
)
RULES = {
    "C17-a": "DELEGATION: Slice(non-negative)/Chain/CountFrom/Reverse hand the work to islice/chain/count/list+pop with their own arguments",
    "C17-b": "REJECTION: bad steps leave the constructor as LenaValueError; negative path wraps a step != 1 in islice(gen, None, None, step)",
    "C17-c": "STOP: LenaStopFill only when the index iterator is exhausted; fill iff selected; index advances once",
    "C17-d": "ORIENTATION: deques are used first-in first-out (insertion side opposite to removal side)",
    "C17-f": "EXHAUSTION: the end of a flow is recognised by StopIteration (or a private sentinel object), never by a value the flow may contain",
    "C17-h": "OPTION PROVENANCE: an option of the iterator elements stored under its own name (self._opt from the parameter opt) is "
             "computed from that parameter alone, never widened or narrowed by another argument of the constructor",
    "C17-g": "TRANSPARENT ERRORS: a handler of the iterator elements that ends the flow quietly (except IndexError: return) encloses only "
             "the element's own container operation, never a pull from the incoming flow",
    "C17-e": "WINDOW: RunningChunkBy's first window and maxlen use the same size; yield-then-append; last window only if full; branches agree",
}
IT = "lena.flow.iterators"
EL = "lena.flow.elements"
EXC = "lena.core.exceptions."


def _canon(ctx, call):
    """canonical callee, following `from itertools import islice` done inside the function."""
    c = ctx.res.call_canon(call)
    if c is None and isinstance(call.func, ast.Name) and call.func.id in ("islice", "deque", "chain", "count"):
        fn = A.enclosing_func(call)
        while fn is not None:
            for st in A.walk_local(fn):
                if isinstance(st, ast.ImportFrom) and any((al.asname or al.name) == call.func.id for al in st.names):
                    return "%s.%s" % (st.module, [al.name for al in st.names if (al.asname or al.name) == call.func.id][0])
            fn = A.enclosing_func(fn)
    return c


def _N(text, mapping=None):
    """canonical spelling (A.norm_src) of an expression given as text."""
    return A.norm_src(ast.parse(text, mode="eval").body, mapping)


def _asserts(t, pol, text, neg_text=None, mapping=None):
    """Polarity with which the branch literal (t, pol) asserts the condition *text* (*neg_text*: the spelling of its
    negation, e.g. `a != b` for `a == b`), however the comparison is oriented; None when it is another condition."""
    n = A.norm_src(t, mapping)
    if n == _N(text):
        return pol
    if neg_text is not None and n == _N(neg_text):
        return not pol
    return None


def _deref(p, expr, upto):
    """(value, clean): a local Name is replaced by the value of its last definition on the path before event *upto*
    (`_ret = f(x); return _ret` reads `return f(x)`), transitively.  clean is False when the name is read between that
    definition and *upto*, or when its last binding is not a plain single-target assignment: the two spellings are then
    not known to be equivalent."""
    clean = True
    for _ in range(6):
        if not isinstance(expr, ast.Name):
            break
        defs = [(i, e[1]) for i, e in enumerate(p.ev[:upto]) if e[0] in ("stmt", "partial", "iter", "with")
                and expr.id in [n for t in A.assigned_targets(e[1]) for n in A.target_names(t)]]
        if not defs:
            break
        i, st = defs[-1]
        if not (p.ev[i][0] == "stmt" and isinstance(st, ast.Assign) and len(st.targets) == 1 and isinstance(st.targets[0], ast.Name)):
            return expr, False
        for k, n in p.exprs():
            if i < k < upto and any(isinstance(x, ast.Name) and x.id == expr.id for x in A.walk_local(n)):
                clean = False
        for e in p.ev[i + 1:upto]:
            if e[0] == "partial" and any(isinstance(x, ast.Name) and x.id == expr.id for x in A.walk_local(e[1])):
                clean = False
        upto, expr = i, st.value
    return expr, clean


def _returned_call(body):
    """The call whose result a body consisting of `return f(...)` -- or of `r = f(...); return r` -- returns; else None."""
    if len(body) == 1 and isinstance(body[0], ast.Return):
        v = body[0].value
    elif len(body) == 2 and isinstance(body[0], ast.Assign) and len(body[0].targets) == 1 and isinstance(body[0].targets[0], ast.Name) \
            and isinstance(body[1], ast.Return) and isinstance(body[1].value, ast.Name) and body[1].value.id == body[0].targets[0].id:
        v = body[0].value
    else:
        return None
    return v if isinstance(v, ast.Call) else None


# -- C17-a -----------------------------------------------------------------------------------
def check_delegation(ctx):
    res = ctx.res
    init = ctx.tree.func(IT, "Slice.__init__")
    va = init.args.vararg.arg if init.args.vararg else None
    if not ctx.require(va is not None, "C17-a", init, "Slice.__init__: expected *args"):
        return
    lam = [s for s in A.walk_local(init) if isinstance(s, ast.Assign) and any(A.is_self_attr(t, "_islice") for t in s.targets)]
    ok = len(lam) == 1 and isinstance(lam[0].value, ast.Lambda)
    if ok:
        l = lam[0].value
        ps = A.func_params(l)
        b = l.body
        ok = len(ps) == 1 and isinstance(b, ast.Call) and _canon(ctx, b) == "itertools.islice" and len(b.args) == 2 \
            and A.src(b.args[0]) == ps[0] and isinstance(b.args[1], ast.Starred) and A.src(b.args[1].value) == va and not b.keywords
    ctx.check("C17-a", ok, init, "Slice does not keep `lambda iterable: islice(iterable, *args)` with its own arguments as they were "
              "given: for non-negative indices the result is then no longer xs[start:stop:step]",
              detail="Slice(non-negative) delegates to islice(iterable, *args)", construct="slice-islice")
    if ok:
        # the loop variable of the comprehension is local: compare structurally (and in canonical spelling: `0 <= v` is `v >= 0`)
        guard_ok = False
        for t, pol in _enclosing_conds(lam[0], init):
            if pol and isinstance(t, ast.Call) and res.call_canon(t) == "builtins.all" and len(t.args) == 1 \
                    and isinstance(t.args[0], (ast.ListComp, ast.GeneratorExp)):
                g = t.args[0]
                v = A.src(g.generators[0].target)
                guard_ok = len(t.args[0].generators) == 1 and A.src(g.generators[0].iter) == va and not g.generators[0].ifs \
                    and isinstance(g.elt, ast.BoolOp) and isinstance(g.elt.op, ast.Or) \
                    and sorted(A.norm_src(x) for x in g.elt.values) == sorted([_N("%s is None" % v), _N("%s >= 0" % v)])
        ctx.check("C17-a", guard_ok, lam[0], "the islice delegation is not guarded by `all(v is None or v >= 0 for v in args)`: islice "
                  "raises for negative indices, and the negative algorithm is needed exactly when some index is negative",
                  detail="delegation guarded by all-non-negative", construct="slice-guard")
    run = ctx.tree.func(IT, "Slice.run")
    fp = [p for p in A.func_params(run) if p != "self"]
    rets = [r for r in A.walk_local(run) if isinstance(r, ast.Return)]
    ok = len(rets) == 1
    undecided = None
    if ok:
        # the returned value, a local dereferenced to its definition on the path (`r = self._islice(flow); return r`)
        rpaths = list(P.paths_of(run))
        ok = bool(rpaths) and all(p.end == "return" and p.has(rets[0]) for p in rpaths)
        for p in rpaths if ok else []:
            v, clean = _deref(p, rets[0].value, p.index(rets[0]))
            if not clean:
                undecided = v
                break
            rebound = [s for s in p.stmts() if any(n in fp for t in A.assigned_targets(s) for n in A.target_names(t))]
            ok = ok and isinstance(v, ast.Call) and A.src(v.func) == "self._islice" and [A.src(a) for a in v.args] == fp \
                and not v.keywords and not rebound
    if undecided is not None:
        ctx.unknown("C17-a", run, "Slice.run returns a local whose value `%s` is used before it is returned" % A.short(undecided, 50))
    else:
        ctx.check("C17-a", ok, run, "Slice.run does not return self._islice(flow)", detail="Slice.run = self._islice(flow)", construct="slice-run")
    ind = [s for s in A.walk_local(init) if isinstance(s, ast.Assign) and any(A.is_self_attr(t, "_indices") for t in s.targets)]
    ok = len(ind) == 1 and isinstance(ind[0].value, ast.Call) and A.src(ind[0].value.func) == "self._islice" and len(ind[0].value.args) == 1 \
        and isinstance(ind[0].value.args[0], ast.Call) and _canon(ctx, ind[0].value.args[0]) == "itertools.count" \
        and [A.src(a) for a in ind[0].value.args[0].args] in ([], ["0"]) and not ind[0].value.args[0].keywords
    ctx.check("C17-a", ok, init, "the indices used by fill_into are not self._islice(itertools.count(0)): run and fill_into would select "
              "different positions", detail="fill_into indices = the same islice over count(0)", construct="slice-indices")
    starts = {}
    for s in A.walk_local(init):
        if isinstance(s, ast.Assign):
            for t in s.targets:
                if A.is_self_attr(t) and t.attr in ("_next_index", "_index"):
                    starts[t.attr] = A.int_const(s.value)
    ctx.check("C17-a", starts == {"_next_index": -1, "_index": 0}, init, "fill_into's counters do not start at _index = 0, _next_index = -1 "
              "(%s)" % starts, detail="counters start at 0 / -1", construct="slice-counters")
    # Chain
    cinit = ctx.tree.func(IT, "Chain.__init__")
    cva = cinit.args.vararg.arg if cinit.args.vararg else None
    st = [s for s in A.walk_local(cinit) if isinstance(s, ast.Assign) and any(A.is_self_attr(t, "_iterables") for t in s.targets)]
    ctx.check("C17-a", cva is not None and len(st) == 1 and A.src(st[0].value) == cva, cinit, "Chain does not keep its iterables as given",
              detail="Chain._iterables = the arguments", construct="chain-init")
    ccall = ctx.tree.func(IT, "Chain.__call__")
    _check_yield_from(ctx, ccall, "Chain.__call__", lambda c: _canon(ctx, c) == "itertools.chain" and len(c.args) == 1
                      and isinstance(c.args[0], ast.Starred) and A.src(c.args[0].value) == "self._iterables" and not c.keywords,
                      "itertools.chain(*self._iterables)", "chain-call")
    # CountFrom
    kinit = ctx.tree.func(IT, "CountFrom.__init__")
    for attr, par in (("_start", "start"), ("_step", "step")):
        st = [s for s in A.walk_local(kinit) if isinstance(s, ast.Assign) and any(A.is_self_attr(t, attr) for t in s.targets)]
        ctx.check("C17-a", len(st) == 1 and A.src(st[0].value) == par, kinit, "CountFrom.%s is not the parameter %s" % (attr, par),
                  detail="CountFrom.%s = %s" % (attr, par), construct="count-init:" + attr)
    dflt = {k: A.int_const(v) for k, v in A.param_defaults(kinit).items()}
    ctx.check("C17-a", dflt == {"start": 0, "step": 1}, kinit, "CountFrom's defaults are %s, not start=0, step=1" % dflt,
              detail="CountFrom(start=0, step=1)", construct="count-defaults")
    kcall = ctx.tree.func(IT, "CountFrom.__call__")
    _check_yield_from(ctx, kcall, "CountFrom.__call__", lambda c: _canon(ctx, c) == "itertools.count"
                      and [A.src(a) for a in c.args] == ["self._start", "self._step"] and not c.keywords,
                      "itertools.count(self._start, self._step)", "count-call")
    # Reverse
    rrun = ctx.tree.func(IT, "Reverse.run")
    fp = [p for p in A.func_params(rrun) if p != "self"][0]
    mats = [s for s in A.walk_local(rrun) if isinstance(s, ast.Assign) and isinstance(s.value, ast.Call)
            and res.call_canon(s.value) == "builtins.list" and [A.src(a) for a in s.value.args] == [fp]]
    ok = len(mats) == 1 and isinstance(mats[0].targets[0], ast.Name)
    if ok:
        name = mats[0].targets[0].id
        ys = [y for y in A.walk_local(rrun) if isinstance(y, ast.Yield)]
        ok = len(ys) == 1 and isinstance(ys[0].value, ast.Call) and A.src(ys[0].value.func) == "%s.pop" % name and not ys[0].value.args
        if ok:
            tr = A.enclosing(ys[0], ast.Try)
            ok = tr is not None and any(h.type is not None and res.canon(h.type) == "builtins.IndexError" for h in tr.handlers) \
                and A.enclosing(ys[0], ast.While) is not None
            others = [c for c in A.walk_local(rrun) if isinstance(c, ast.Call) and isinstance(c.func, ast.Attribute)
                      and A.src(c.func.value) == name and c.func.attr != "pop"]
            ok = ok and not others
    ctx.check("C17-a", ok, rrun, "Reverse.run is not `items = list(flow)` followed by yielding items.pop() until IndexError: the values "
              "would not come out in exactly the reversed order", detail="Reverse = list(flow), then pop() from the end", construct="reverse")
    if not ok and len(mats) != 1:
        alt = [r for r in A.walk_local(rrun) if isinstance(r, (ast.Return, ast.For)) and "reversed(" in A.src(r)]
        if alt:
            ctx.unknown("C17-a", rrun, "Reverse.run uses another idiom (%s)" % A.short(alt[0], 60))


def _check_yield_from(ctx, fn, qual, pred, what, key):
    loops = [l for l in A.body_wo_doc(fn) if isinstance(l, ast.For)]
    ok = False
    if len(loops) == 1 and len(A.body_wo_doc(fn)) == 1 and isinstance(loops[0].iter, ast.Call) and pred(loops[0].iter):
        body = [s for s in loops[0].body if not A.is_noop_stmt(s)]
        ok = len(body) == 1 and isinstance(body[0], ast.Expr) and isinstance(body[0].value, ast.Yield) \
            and A.src(body[0].value.value) == A.src(loops[0].target) and not loops[0].orelse
    else:
        yf = [s for s in A.body_wo_doc(fn) if isinstance(s, ast.Expr) and isinstance(s.value, ast.YieldFrom)]
        rc = _returned_call(A.body_wo_doc(fn))
        if len(A.body_wo_doc(fn)) == 1 and yf and isinstance(yf[0].value.value, ast.Call):
            ok = pred(yf[0].value.value)
        elif rc is not None:
            ok = pred(rc)
    ctx.check("C17-a", ok, fn, "%s does not yield every value of %s, in order" % (qual, what), detail="%s = %s" % (qual, what), construct=key)


def _enclosing_conds(node, stop):
    """Branch literals (expr, polarity) that hold where *node* stands, from the if statements around it up to *stop*:
    `if not c: ... else: <node>` gives (c, True) just as `if c: <node>` does (see A.literals)."""
    out = []
    child = node
    for a in A.ancestors(node):
        if a is stop:
            break
        if isinstance(a, ast.If):
            if any(child is x for x in a.body):
                out.extend(A.literals(a.test, True))
            elif any(child is x for x in a.orelse):
                out.extend(A.literals(a.test, False))
        child = a
    return out


# -- C17-b -----------------------------------------------------------------------------------
def check_rejection(ctx):
    res = ctx.res
    init = ctx.tree.func(IT, "Slice.__init__")
    n = 0
    seen = set()
    for p in P.paths_of(init):
        if p.end == "raise":
            r = [s for s in p.stmts() if isinstance(s, ast.Raise)][-1]
            ex = r.exc.func if isinstance(r.exc, ast.Call) else r.exc
            key = ("raise", A.short(r, 50))
            if key in seen:
                continue
            seen.add(key)
            ctx.check("C17-b", ex is not None and res.canon(ex) == EXC + "LenaValueError", r, "Slice.__init__ leaves through `%s`, not "
                      "LenaValueError" % A.short(r, 50), detail="bad arguments -> LenaValueError", construct="slice-raise:" + A.short(ex, 30), path=p)
            continue
        n += 1
    ctx.instances_floor("C17-b/exits", n, 3, "normal exits of Slice.__init__")
    # the ValueError of islice is caught where the delegation is first used
    tries = [t for t in A.walk_local(init) if isinstance(t, ast.Try) and any("self._islice(" in A.src(s) for s in t.body)]
    ok = len(tries) == 1 and any(h.type is not None and res.canon(h.type) == "builtins.ValueError" for h in tries[0].handlers)
    ctx.check("C17-b", ok, init, "the first use of the islice delegation is not enclosed by `except ValueError`: a step of 0 or a negative "
              "step leaves the constructor as ValueError (or only when the element is run)", detail="islice's ValueError caught at construction",
              construct="slice-valueerror")
    # negative path
    sl = [s for s in A.walk_local(init) if isinstance(s, ast.Assign) and isinstance(s.value, ast.Call)
          and res.call_canon(s.value) == "builtins.slice"]
    va = init.args.vararg.arg if init.args.vararg else "args"
    if not ctx.require(len(sl) == 1 and isinstance(sl[0].targets[0], ast.Name) and len(sl[0].value.args) == 1
                       and isinstance(sl[0].value.args[0], ast.Starred) and A.src(sl[0].value.args[0].value) == va, "C17-b", init,
                       "negative path: `s = slice(*args)` not found"):
        return
    s = sl[0].targets[0].id
    # which target receives s.start / s.stop / s.step: one unpacking assignment or separate ones, element by element
    got = {}
    for x in A.walk_local(init):
        if not isinstance(x, ast.Assign) or len(x.targets) != 1:
            continue
        pairs = list(zip(x.targets[0].elts, x.value.elts)) if isinstance(x.targets[0], ast.Tuple) and isinstance(x.value, ast.Tuple) \
            and len(x.targets[0].elts) == len(x.value.elts) else [(x.targets[0], x.value)]
        for tg, v in pairs:
            if A.src(v) in ("%s.start" % s, "%s.stop" % s, "%s.step" % s):
                got.setdefault(A.src(v).split(".")[-1], []).append(tg)
    ok = all(len(got.get(k, ())) == 1 for k in ("start", "stop", "step")) and A.src(got["start"][0]) == "self._start" \
        and A.src(got["stop"][0]) == "self._stop" and isinstance(got["step"][0], ast.Name)
    if not ctx.check("C17-b", ok, init, "the negative path does not take (self._start, self._stop, step) from (s.start, s.stop, s.step) in "
                     "this order", detail="start/stop/step normalised by slice(*args)", construct="slice-unpack"):
        return
    step = got["step"][0].id
    nm = {step: "step"}
    # step None -> 1
    dflt = []
    for i in A.walk_local(init):
        if isinstance(i, ast.If):
            t, pol = A.strip_not(i.test)
            holds = _asserts(t, pol, "step is None", "step is not None", nm)
            if holds is not None and any(isinstance(b, ast.Assign) and A.src_with(b, nm) == "step = 1" for b in (i.body if holds else i.orelse)):
                dflt.append(i)
    ctx.check("C17-b", len(dflt) == 1, init, "a missing step is not replaced by 1 on the negative path", detail="step None -> 1", construct="slice-step-default")
    # the check precedes every binding of run, on every path
    n = 0
    for p in P.paths_of(init):
        binds = [i for i, e in enumerate(p.ev) if e[0] == "stmt" and isinstance(e[1], ast.Assign) and any(A.is_self_attr(t, "run") for t in e[1].targets)]
        if not binds:
            continue
        n += 1
        lits = K.lit_srcs(p, nm, upto=binds[0], norm=True)
        ok = ("not (%s)" % _N("step <= 0") in lits or _N("step > 0") in lits) \
            and ("not (%s)" % _N("int(step) != step") in lits or _N("int(step) == step") in lits)
        key = ("bind", ok)
        if key in seen:
            continue
        seen.add(key)
        ctx.check("C17-b", ok, p.ev[binds[0]][1], "Slice binds run on a path that has not refuted `step <= 0 or int(step) != step` [%s]: a "
                  "zero, negative or fractional step is accepted with negative indices" % " and ".join(lits[-4:]),
                  detail="negative path: step validated before run is bound", construct="slice-step-check", path=lits)
    ctx.instances_floor("C17-b/bind", n, 2, "paths of Slice.__init__ that bind run")
    # run for step != 1
    for st in [x for x in A.walk_local(init) if isinstance(x, ast.Assign) and any(A.is_self_attr(t, "run") for t in x.targets)]:
        conds = [_asserts(t, pol, "step != 1", "step == 1", nm) for t, pol in _enclosing_conds(st, init)]
        v = st.value
        if not (isinstance(v, ast.Lambda) and len(A.func_params(v)) == 1):
            ctx.unknown("C17-b", st, "run bound to `%s`" % A.short(v, 50))
            continue
        fp = A.func_params(v)[0]
        b = v.body
        inner = "self._run_negative_islice(%s)" % fp
        if True in conds:
            ok = isinstance(b, ast.Call) and _canon(ctx, b) == "itertools.islice" and [A.src_with(a, nm) for a in b.args] == [inner, "None", "None", "step"]
            ctx.check("C17-b", ok, st, "for a step other than 1 run is `%s`, not islice(self._run_negative_islice(flow), None, None, step)"
                      % A.short(b, 70), detail="step != 1: every step-th value of the negative selection", construct="slice-run-step")
        else:
            ctx.check("C17-b", A.src(b) == inner, st, "for step 1 run is `%s`, not self._run_negative_islice(flow)" % A.short(b, 70),
                      detail="step 1: the negative selection itself", construct="slice-run-step1")
    stp = [x for x in A.walk_local(init) if isinstance(x, ast.Assign) and any(A.is_self_attr(t, "_step") for t in x.targets)]
    ctx.check("C17-b", len(stp) == 1 and A.src_with(stp[0].value, nm) == "step", init, "self._step is not the validated step",
              detail="_step = validated step", construct="slice-step-field")


# -- C17-c -----------------------------------------------------------------------------------
def check_stop(ctx):
    res = ctx.res
    fn = ctx.tree.func(IT, "Slice.fill_into")
    ps = [p for p in A.func_params(fn) if p != "self"]
    n = 0
    for p in P.paths_of(fn):
        fills = [c for _, c in p.calls() if isinstance(c.func, ast.Attribute) and c.func.attr == "fill" and A.src(c.func.value) == ps[0]]
        incs = [A.as_augassign(s) for s in p.stmts() if A.as_augassign(s) is not None and A.src(A.as_augassign(s)[0]) == "self._index"]
        if p.end == "raise":
            r = [s for s in p.stmts() if isinstance(s, ast.Raise)][-1]
            in_stop = any(e[0] == "exc" and e[1].type is not None and res.canon(e[1].type) == "builtins.StopIteration" for e in p.ev)
            nexts = [e for e in p.ev if e[0] == "partial" and "next(self._indices)" in A.src(e[1])]
            ex = r.exc.func if isinstance(r.exc, ast.Call) else r.exc
            writes = [x for x in p.stmts() if isinstance(x, (ast.Assign, ast.AugAssign)) and any(
                isinstance(t, ast.Attribute) and A.root_name(t) == "self" for t in A.assigned_targets(x))]
            ctx.check("C17-c", not writes, r, "Slice.fill_into changes its state (`%s`) on the path that raises LenaStopFill: the stop is no "
                      "longer final -- a caller that offers further values of the same flow gets values selected again after the slice "
                      "has ended" % (A.short(writes[0], 50) if writes else ""), detail="LenaStopFill leaves the slice exhausted (no state written)",
                      construct="stop-sticky", path=p)
            ctx.check("C17-c", in_stop and bool(nexts) and ex is not None and res.canon(ex) == EXC + "LenaStopFill" and not fills, r,
                      "Slice.fill_into raises `%s` outside the handler of the exhausted index iterator (or after filling): LenaStopFill "
                      "may only be raised when no later value could be selected" % A.short(r, 40),
                      detail="LenaStopFill only when next(self._indices) is exhausted", construct="stop-raise", path=p)
            continue
        n += 1
        sel = [_asserts(t, pol, "self._index == self._next_index", "self._index != self._next_index") for t, pol in p.literals()]
        sel = [x for x in sel if x is not None]
        want = 1 if (sel and sel[-1]) else 0
        ok = len(incs) == 1 and isinstance(incs[0][1], ast.Add) and A.is_const(incs[0][2], 1) and len(fills) == want and bool(sel)
        if ok and fills:
            ok = A.src(fills[0]) == "%s.fill(%s)" % (ps[0], ps[1])
        ctx.check("C17-c", ok, fn, "Slice.fill_into [%s]: %d fill(s), index advanced %d time(s): a value is filled exactly when its "
                  "index is the selected one, and the index advances once per value" % (p.describe(3), len(fills), len(incs)),
                  detail="fill iff _index == _next_index; _index += 1 once [%s]" % p.describe(2), construct="stop-path:%s:%d:%d" % (
                      sel[-1] if sel else None, len(fills), len(incs)), path=p)
        # the next index is fetched only when the current one has been passed
        fetch = [e[1] for e in p.ev if e[0] == "stmt" and isinstance(e[1], ast.Assign) and "next(self._indices)" in A.src(e[1])]
        if fetch:
            adv = [_asserts(t, pol, "self._index > self._next_index", "self._index <= self._next_index") for t, pol in p.literals()]
            adv = [x for x in adv if x is not None]
            ctx.check("C17-c", adv == [True] and A.src(fetch[0].targets[0]) == "self._next_index", fetch[0],
                      "the next selected index is fetched although the current one has not been passed (or is not stored in _next_index)",
                      detail="next index fetched when _index > _next_index", construct="stop-fetch", path=p)
    ctx.instances_floor("C17-c", n, 3, "normal paths of Slice.fill_into")


# -- C17-d -----------------------------------------------------------------------------------
LEFT_IN, RIGHT_IN = ("appendleft", "extendleft"), ("append", "extend")
LEFT_OUT, RIGHT_OUT = ("popleft",), ("pop",)


def _deque_usage(ctx, fn, name_nodes, ctor):
    """Sides on which values enter and leave the deque held by the given local (set of Name nodes)."""
    ins, outs, other = set(), set(), []
    if ctor.args:
        ins.add("right")          # deque(iterable, ...) appends from the left end to the right
    for n in name_nodes:
        par = A.parent(n)
        if isinstance(par, ast.Attribute) and par.value is n:
            call = A.parent(par)
            m = par.attr
            if isinstance(call, ast.Call) and call.func is par:
                if m in LEFT_IN:
                    ins.add("left")
                elif m in RIGHT_IN:
                    ins.add("right")
                elif m in LEFT_OUT:
                    outs.add("left")
                elif m in RIGHT_OUT:
                    outs.add("right")
                elif m in ("clear", "copy", "count", "index"):
                    pass
                else:
                    other.append(m)
            continue
        if isinstance(par, ast.Call) and n in par.args:
            cn = A.call_name(par)
            if cn == "len":
                continue
            outs.add("iter-left")   # handed to a consumer that iterates it from the left: container(chunk), tuple(d)
            continue
        if isinstance(par, ast.Starred):
            outs.add("iter-left")
            continue
        if isinstance(par, (ast.For, ast.comprehension)) and par.iter is n:
            outs.add("iter-left")
            continue
        if isinstance(par, ast.Return) or isinstance(par, ast.Assign):
            continue
        if isinstance(par, ast.Compare):
            continue
        other.append(type(par).__name__)
    return ins, outs, other


def check_orientation(ctx):
    res = ctx.res
    n = 0
    for mod, qual in ((IT, "Slice._run_negative_islice"), (EL, "RunningChunkBy.run")):
        fn = ctx.tree.func(mod, qual)
        # deque constructions and the locals that hold them (a helper that returns its deque passes it to the caller's local)
        scopes = [fn] + [d for d in ast.walk(fn) if isinstance(d, ast.FunctionDef) and d is not fn]
        helpers = {}
        for sc in scopes[1:]:
            rets = [r for r in A.walk_local(sc) if isinstance(r, ast.Return) and isinstance(r.value, ast.Name)]
            for st in A.walk_local(sc):
                if isinstance(st, ast.Assign) and isinstance(st.value, ast.Call) and (_canon(ctx, st.value) or "").endswith("collections.deque") \
                        and isinstance(st.targets[0], ast.Name) and any(r.value.id == st.targets[0].id for r in rets):
                    helpers[sc.name] = (sc, st.targets[0].id, st.value)
        groups = {}   # (scope id, local name) -> [ctor calls]
        for sc in scopes:
            for st in A.walk_local(sc):
                if isinstance(st, ast.Assign) and isinstance(st.value, ast.Call) and len(st.targets) == 1 and isinstance(st.targets[0], ast.Name):
                    c = _canon(ctx, st.value) or ""
                    if c.endswith("collections.deque"):
                        groups.setdefault((sc, st.targets[0].id), []).append(("ctor", st, st.value))
                    elif isinstance(st.value.func, ast.Name) and st.value.func.id in helpers:
                        groups.setdefault((sc, st.targets[0].id), []).append(("helper", st, helpers[st.value.func.id]))
        for (sc, name), defs in groups.items():
            # each definition of the local starts a use region that lasts until the next definition of the same name
            def_lines = sorted(d[1].lineno for d in defs)
            for kind, st, info in defs:
                nxt = [l for l in def_lines if l > st.lineno]
                hi = nxt[0] if nxt else 10 ** 9
                # uses inside the same enclosing block as the definition
                block = A.parent(st)
                uses = [x for x in A.walk_local(sc) if isinstance(x, ast.Name) and x.id == name and isinstance(x.ctx, ast.Load)
                        and st.lineno <= x.lineno < hi and block in list(A.ancestors(x))]
                if kind == "ctor":
                    ins, outs, other = _deque_usage(ctx, sc, uses, info)
                else:
                    hsc, hname, hctor = info
                    huses = [x for x in A.walk_local(hsc) if isinstance(x, ast.Name) and x.id == hname and isinstance(x.ctx, ast.Load)]
                    ins, outs, other = _deque_usage(ctx, hsc, huses, hctor)
                    i2, o2, oth2 = _deque_usage(ctx, sc, uses, ast.Call(func=ast.Name(id="deque", ctx=ast.Load()), args=[], keywords=[]))
                    ins |= i2
                    outs |= o2
                    other += oth2
                if other:
                    ctx.unknown("C17-d", st, "%s: deque `%s` is used in a way the analyser does not classify (%s)" % (qual, name, ", ".join(sorted(set(other)))))
                    continue
                if not outs or not ins:
                    continue
                n += 1
                out_sides = {"left" if o in ("left", "iter-left") else "right" for o in outs}
                fifo = len(ins) == 1 and len(out_sides) == 1 and ins != out_sides
                ctx.check("C17-d", fifo, st, "%s: values enter the deque `%s` on the %s and are taken from the %s: a deque filled and emptied "
                          "on the same side hands the values out in reversed order (and one used on both sides in no order at all)"
                          % (qual, name, "/".join(sorted(ins)), "/".join(sorted(out_sides))),
                          detail="%s: deque defined by `%s` is first-in first-out (in: %s, out: %s)" % (qual, A.short(st.value, 40), "/".join(sorted(ins)), "/".join(sorted(out_sides))),
                          construct="fifo:%s:%s:%s" % (qual.split(".")[-1], "/".join(sorted(ins)), "/".join(sorted(out_sides))))
    ctx.instances_floor("C17-d", n, 4, "deques with insertions and removals in the negative Slice and RunningChunkBy")


# -- C17-e -----------------------------------------------------------------------------------
def check_window(ctx):
    res = ctx.res
    fn = ctx.tree.func(EL, "RunningChunkBy.run")
    flowp = [p for p in A.func_params(fn) if p != "self"][0]
    nm = K.local_roles(fn, [
        (lambda v, S: S(v) == "self._cs", "n"),
        (lambda v, S: S(v) == "self._container", "container"),
        (lambda v, S: isinstance(v, ast.Call) and (_canon(ctx, v) or "").endswith("collections.deque"), "window"),
    ], res=res)
    S = lambda node: A.src_with(node, nm)
    inv = {v: k for k, v in nm.items()}
    # run() must not keep its window (or anything else) in the element: a run abandoned half-way would leave it there
    selfw = []
    for x in A.walk_local(fn):
        if isinstance(x, (ast.Assign, ast.AugAssign)) and any(isinstance(t, (ast.Attribute, ast.Subscript)) and A.root_name(t) == "self"
                                                                for t in A.assigned_targets(x)):
            selfw.append(x)
        elif isinstance(x, ast.Call) and isinstance(x.func, ast.Attribute) and x.func.attr in (
                "append", "appendleft", "extend", "extendleft", "clear", "pop", "popleft", "insert", "remove", "rotate", "update", "add"):
            recv = x.func.value
            if A.root_name(recv) == "self":
                selfw.append(x)
            elif isinstance(recv, ast.Name):
                d = A.single_def(fn, recv.id)
                if d is not None and A.root_name(d) == "self" and isinstance(d, ast.Attribute):
                    selfw.append(x)
    for x in selfw[:1]:
        ctx.violation("C17-e", x, "RunningChunkBy.run keeps state in the element (`%s`): the window of a run that the consumer abandons "
                      "(a Slice downstream, close()) is still there when the element is run again, and two flows run through one "
                      "element mix their windows" % A.short(x, 60), construct="window-in-element")
    if selfw:
        return
    ctx.ok("C17-e", fn, "RunningChunkBy.run writes nothing through self")
    if not ctx.require("window" in inv, "C17-e", fn, "RunningChunkBy.run: the window deque was not found"):
        return
    wdef = [s for s in A.walk_local(fn) if isinstance(s, ast.Assign) and any(isinstance(t, ast.Name) and t.id == inv["window"] for t in s.targets)]
    c = wdef[0].value
    first = c.args[0] if c.args else None
    ml = A.kwarg(c, "maxlen") or (c.args[1] if len(c.args) > 1 else None)
    size = lambda e: e is not None and S(e) in ("n", "self._cs")
    ok = len(wdef) == 1 and isinstance(first, ast.Call) and _canon(ctx, first) == "itertools.islice" and len(first.args) == 2 \
        and A.src(first.args[0]) == flowp and size(first.args[1]) and size(ml)
    ctx.check("C17-e", ok, wdef[0], "the first window is `%s`: it must be deque(islice(flow, n), maxlen=n) with the same n = chunk size "
              "(a different length or bound gives windows of the wrong size)" % A.short(c, 70),
              detail="first window = deque(islice(flow, n), maxlen=n)", construct="window-init")
    # the flow is made an iterator before the first window is taken (otherwise the loop starts again from the beginning)
    it = [s for s in A.walk_local(fn) if isinstance(s, ast.Assign) and A.src(s) == "%s = iter(%s)" % (flowp, flowp)]
    ctx.check("C17-e", len(it) == 1 and it[0].lineno < wdef[0].lineno, fn, "the flow is not turned into an iterator before the first window "
              "is taken: for a list the loop would start from the first value again", detail="flow = iter(flow) first", construct="window-iter")
    loops = [l for l in A.walk_local(fn) if isinstance(l, ast.For) and A.src(l.iter) == flowp]
    ctx.instances_floor("C17-e/loops", len(loops), 1, "value loops of RunningChunkBy.run")
    shapes = []
    for l in loops:
        for p in P.loop_body_paths(l):
            ys = p.yields()
            apps = [i for i, cc in p.calls() if isinstance(cc.func, ast.Attribute) and S(cc.func.value) == "window" and cc.func.attr == "append"
                    and [A.src(a) for a in cc.args] == [A.src(l.target)]]
            wrong = [cc for i, cc in p.calls() if isinstance(cc.func, ast.Attribute) and S(cc.func.value) == "window"
                     and cc.func.attr in ("appendleft", "pop", "popleft", "clear", "extend", "insert")]
            ok = len(ys) == 1 and len(apps) == 1 and ys[0][0] < apps[0] and not wrong and p.end == "fall"
            ctx.check("C17-e", ok, l, "RunningChunkBy [%s]: for every further value the current window must be yielded once and the value "
                      "appended after it (found %d yield(s), %d append(s)%s)" % (p.describe(2), len(ys), len(apps), ", other window operations" if wrong else ""),
                      detail="yield the window, then append the value", construct="window-step", path=p)
            if ys:
                shapes.append(S(ys[0][1].value))
        # the last window
        nxt = _next_stmt(l)
        ok = isinstance(nxt, ast.If) and A.norm_src(nxt.test, nm) in (_N("len(window) == n"), _N("len(window) == self._cs")) and not nxt.orelse \
            and len([y for y in A.walk_body(nxt.body) if isinstance(y, ast.Yield)]) == 1
        ctx.check("C17-e", ok, l, "after the loop the last window is not yielded exactly under `len(window) == n`: a flow shorter than the "
                  "chunk size must yield nothing, a longer one must not lose its last window", detail="last window only if full",
                  construct="window-last")
        if ok:
            shapes.append(S([y for y in A.walk_body(nxt.body) if isinstance(y, ast.Yield)][0].value))
    # a window handed to a local that is bound, branch by branch, to the container or to a one-line function around it
    # (`new = container` / `def new(values): return container(*values)`) is handed to the container in that way
    resolved = []
    undecided = []
    for sh in shapes:
        m = re.match(r"^(\w+)\((\*?)window\)$", sh)
        if not m or m.group(1) == "container":
            resolved.append(sh)
            continue
        f, star = m.group(1), m.group(2)
        binds = []
        for x in A.walk_local(fn, include_self=False):
            if isinstance(x, ast.Assign) and len(x.targets) == 1 and isinstance(x.targets[0], ast.Name) and x.targets[0].id == f:
                binds.append("container(%swindow)" % star if S(x.value) == "container" else None)
        for x in ast.walk(fn):
            if isinstance(x, ast.FunctionDef) and x is not fn and x.name == f:
                body = A.body_wo_doc(x)
                ps = A.func_params(x)
                r = None
                if len(body) == 1 and isinstance(body[0], ast.Return) and isinstance(body[0].value, ast.Call) and len(ps) == 1 and not star \
                        and S(body[0].value.func) == "container" and len(body[0].value.args) == 1 and not body[0].value.keywords:
                    a = body[0].value.args[0]
                    if isinstance(a, ast.Starred) and A.src(a.value) == ps[0]:
                        r = "container(*window)"
                    elif A.src(a) == ps[0]:
                        r = "container(window)"
                binds.append(r)
        if not binds or None in binds:
            undecided.append(sh)
        else:
            resolved.extend(binds)
    if undecided:
        ctx.unknown("C17-e", fn, "the windows are handed out as %s, which the rule cannot relate to the container" % sorted(set(undecided)))
        return
    shapes = resolved
    ok = set(shapes) <= {"container(window)", "container(*window)"} and len(set(shapes)) == 2
    ctx.check("C17-e", ok, fn, "the windows are handed out as %s: every yield must be container(window) or container(*window)" % sorted(set(shapes)),
              detail="windows handed to the container whole", construct="window-shapes")


def _next_stmt(node):
    par = A.parent(node)
    for field in ("body", "orelse", "finalbody"):
        seq = getattr(par, field, None)
        if isinstance(seq, list) and node in seq:
            i = seq.index(node)
            rest = [s for s in seq[i + 1:] if not A.is_noop_stmt(s)]
            return rest[0] if rest else None
    return None


# -- C17-f -----------------------------------------------------------------------------------
def _not_a_flow(call):
    """The iterator handed to next() is, through the function's own once-bound locals, a generator expression / range /
    reversed / enumerate / zip over values none of which is a parameter called `flow` (nor an attribute of self, nor anything
    the function does not define): it iterates something the function built itself, not the data flow."""
    fn = A.enclosing_func(call)
    if fn is None or not call.args:
        return False
    params = set(A.func_params(fn))
    seen = set()
    todo = [call.args[0]]
    steps = 0
    while todo and steps < 50:
        steps += 1
        e = todo.pop()
        for n in ast.walk(e):
            if isinstance(n, ast.Attribute) and isinstance(n.value, ast.Name) and n.value.id == "self":
                return False
            if not isinstance(n, ast.Name) or not isinstance(n.ctx, ast.Load) or n.id in seen:
                continue
            seen.add(n.id)
            if n.id in params:
                if n.id in ("flow", "self"):
                    return False
                continue
            # comprehension variables of the expressions themselves
            defs = [a for a in A.walk_local(fn) if isinstance(a, ast.Assign) and any(n.id in A.target_names(t) for t in a.targets)]
            comp_vars = {x for g in ast.walk(fn) if isinstance(g, ast.comprehension) for x in A.target_names(g.target)}
            if n.id in comp_vars and not defs:
                continue
            if len(defs) == 1 and len(defs[0].targets) == 1 and isinstance(defs[0].targets[0], ast.Name):
                todo.append(defs[0].value)
                continue
            if n.id in ("range", "reversed", "enumerate", "zip", "len", "isinstance", "iter", "sorted", "list", "tuple") or "." in n.id:
                continue
            # a module-level name (a class, a module): not a flow
            if not defs and not any(isinstance(x, (ast.For, ast.With)) and n.id in [y for t in A.assigned_targets(x) for y in A.target_names(t)]
                                    for x in A.walk_local(fn)):
                continue
            return False
    return steps < 50


def check_exhaustion(ctx):
    res = ctx.res
    n = 0
    for modname in (IT, EL, "lena.core.adapters", "lena.core.split", "lena.flow.zip", "lena.flow.cache"):
        mod = ctx.tree.module(modname)
        for c in ast.walk(mod.tree):
            if not (isinstance(c, ast.Call) and res.call_canon(c) == "builtins.next"):
                continue
            n += 1
            if len(c.args) < 2:
                ctx.ok("C17-f", c, "`%s`: exhaustion surfaces as StopIteration" % A.short(c, 50))
                continue
            d = c.args[1]
            const = isinstance(d, ast.Constant) or (isinstance(d, (ast.Tuple, ast.List, ast.Dict)) and not getattr(d, "elts", getattr(d, "keys", None)))
            if const and _not_a_flow(c):
                ctx.ok("C17-f", c, "`%s`: the iterator is built in the function from indices/elements of a sequence argument, not from a flow" % A.short(c, 50))
                continue
            if const:
                ctx.violation("C17-f", c, "`%s` marks the end of the iterator by the value %s, which a flow may contain: a flow value equal to "
                              "it is taken for the end of the flow (the rest is silently lost)" % (A.short(c, 60), A.src(d)),
                              construct="next-default:%s" % A.src(d))
            else:
                t = res.resolve(d) if isinstance(d, (ast.Name, ast.Attribute)) else None
                if t is not None and t.kind in ("var", "def"):
                    ctx.ok("C17-f", c, "`%s`: private sentinel" % A.short(c, 50))
                else:
                    ctx.unknown("C17-f", c, "`%s`: default of next() not classified" % A.short(c, 60))
    ctx.instances_floor("C17-f", n, 5, "next() calls in the flow elements")


def check_transparent_errors(ctx):
    """Reverse().run(xs) is reversed(list(xs)): when xs raises while it is being collected, so does the reference.  `except
    IndexError: return` is meant for the element's own empty list; if the try also covers list(flow) an IndexError (or
    LenaIndexError) of an upstream element ends the flow silently with nothing yielded."""
    hits = K.swallowed_pulls(ctx.tree, ctx.res, modules=("lena.flow.iterators", "lena.flow.elements"))
    for mod, fn, tr, h, x in hits:
        ctx.violation("C17-g", tr, "%s: the handler `except %s` (which does not re-raise) also covers `%s`, a pull from the incoming flow: an "
                      "error of that kind raised by an upstream element is taken for the element's own end condition and the flow ends "
                      "quietly -- Reverse().run(xs) no longer behaves as reversed(list(xs)), which raises" % (
                          A.qualname(fn), A.src(h.type) if h.type is not None else "", A.short(A.enclosing(x, (ast.stmt,)) or x, 50)),
                      construct="swallowed-pull:%s" % A.qualname(fn))
    n = 0
    for m, fn in ctx.tree.functions():
        if m.name in ("lena.flow.iterators", "lena.flow.elements"):
            n += sum(1 for t in A.walk_local(fn) if isinstance(t, ast.Try))
    ctx.instances_floor("C17-g", n, 5, "try statements in the iterator and flow elements")
    if not hits:
        ctx.ok("C17-g", ("lena.flow.iterators", "<module>"), "%d try statements: quiet handlers cover no pull from the flow (StopIteration apart)" % n)


def check_option_provenance(ctx):
    """C17-h.  RunningChunkBy(container, from_iterable) builds its windows with container(*chunk) unless the caller said
    from_iterable; an option that silently also depends on what the container is changes the windows for one family of
    containers (a namedtuple class) and for nobody else.  Every stored option of the elements of lena.flow.iterators and
    lena.flow.elements that carries the name of a constructor parameter may read only that parameter."""
    n = 0
    bad = 0
    for mod, fn in ctx.tree.functions():
        if mod.name not in (IT, EL) or fn.name != "__init__" or A.enclosing_class(fn) is None:
            continue
        params = {p for p in A.func_params(fn) if p != "self"}
        for a in A.walk_local(fn):
            if not (isinstance(a, ast.Assign) and len(a.targets) == 1 and A.is_self_attr(a.targets[0])):
                continue
            opt = a.targets[0].attr.lstrip("_")
            if opt not in params:
                continue
            names = {x.id for x in ast.walk(a.value) if isinstance(x, ast.Name)}
            if opt not in names:
                continue
            n += 1
            others = sorted((names & params) - {opt})
            if others:
                bad += 1
                ctx.violation("C17-h", a, "%s stores the option `%s` as `%s`, which also depends on the argument%s %s: the element no longer "
                              "does what the caller asked for with this option for some values of the other argument (a container that is "
                              "a tuple subclass built from separate values gets its windows as one iterable)" % (
                                  A.qualname(fn), opt, A.short(a.value, 70), "s" if len(others) > 1 else "", ", ".join(others)),
                              construct="option-provenance:%s:%s" % (A.qualname(fn), opt))
    ctx.instances_floor("C17-h", n, 5, "options stored under their parameter's name in lena.flow.iterators / lena.flow.elements")
    if not bad:
        ctx.ok("C17-h", (IT, "<module>"), "%d stored options read only their own parameter" % n)


def check(ctx):
    check_option_provenance(ctx)
    check_transparent_errors(ctx)
    check_exhaustion(ctx)
    check_delegation(ctx)
    check_rejection(ctx)
    check_stop(ctx)
    check_orientation(ctx)
    check_window(ctx)


ITF = "lena/flow/iterators.py"
ELF = "lena/flow/elements.py"
VARIANTS = [
    M("reverse-try-covers-collection", ITF, "        all_huge_flow = list(flow)\n        while 1:\n            try:\n                yield all_huge_flow.pop()\n            except IndexError:\n                return",
      "        try:\n            all_huge_flow = list(flow)\n            while 1:\n                yield all_huge_flow.pop()\n        except IndexError:\n            return", ["C17-g"]),
    M("from-iterable-widened", ELF, "        self._from_iterable = bool(from_iterable)", "        self._from_iterable = bool(from_iterable) or isinstance(container, type)", ["C17-h"]),
    M("stopfill-rewinds", ITF, "            except StopIteration:\n                raise lena.core.LenaStopFill()", "            except StopIteration:\n                self._indices = self._islice(itertools.count(0))\n                self._next_index = -1\n                self._index = 0\n                raise lena.core.LenaStopFill()", ["C17-c"]),
    M("window-kept-in-element", ELF, "        chunk = collections.deque(itertools.islice(flow, chunk_size),\n                                  maxlen=chunk_size)", "        chunk = self._chunk\n        chunk.extend(itertools.islice(flow, chunk_size))", ["C17-e"]),
    M("skip-with-none-sentinel", ITF, "                for _ in zip(range(start), flow):\n                    pass", "                for _ in range(start):\n                    if next(flow, None) is None:\n                        return", ["C17-f"]),
    M("fillcompute-none-sentinel", "lena/core/adapters.py", "            try:\n                val = next(slice_)\n            except StopIteration:\n                # Unlike FillCompute, we don't yield anything\n                # if the flow was smaller than the required bufsize\n                break\n            else:\n                self._el_fill(val)\n                nfills += 1", "            val = next(slice_, None)\n            if val is None:\n                break\n            self._el_fill(val)\n            nfills += 1", ["C17-f"]),
    M("islice-args-reversed", ITF, "            self._islice = lambda iterable: islice(iterable, *args)", "            self._islice = lambda iterable: islice(iterable, *args[::-1])", ["C17-a"]),
    M("islice-stop-only", ITF, "            self._islice = lambda iterable: islice(iterable, *args)", "            self._islice = lambda iterable: islice(iterable, args[-1])", ["C17-a"]),
    M("guard-positive-only", ITF, "        if all([val is None or val >= 0 for val in args]):", "        if all([val is None or val > 0 for val in args]):", ["C17-a"]),
    M("indices-count-from-one", ITF, "                self._indices = self._islice(itertools.count(0))", "                self._indices = self._islice(itertools.count(1))", ["C17-a"]),
    M("index-starts-at-one", ITF, "            self._next_index = -1\n            self._index = 0", "            self._next_index = -1\n            self._index = 1", ["C17-a"]),
    M("run-skips-delegation", ITF, "        return self._islice(flow)", "        return iter(flow)", ["C17-a"]),
    M("chain-reversed", ITF, "        for val in itertools.chain(*self._iterables):", "        for val in itertools.chain(*reversed(self._iterables)):", ["C17-a"]),
    M("chain-zip", ITF, "        for val in itertools.chain(*self._iterables):", "        for val in zip(*self._iterables):", ["C17-a"]),
    M("count-swapped", ITF, "        for val in itertools.count(self._start, self._step):", "        for val in itertools.count(self._step, self._start):", ["C17-a"]),
    M("count-fields-swapped", ITF, "        self._start = start\n        self._step = step", "        self._start = step\n        self._step = start", ["C17-a"]),
    M("reverse-pop-front", ITF, "                yield all_huge_flow.pop()", "                yield all_huge_flow.pop(0)", ["C17-a"]),
    M("valueerror-leaks", ITF, "            try:\n                self._indices = self._islice(itertools.count(0))\n            except ValueError as err:\n                raise lena.core.LenaValueError(err)", "            self._indices = self._islice(itertools.count(0))", ["C17-b"]),
    M("valueerror-reraised", ITF, "            except ValueError as err:\n                raise lena.core.LenaValueError(err)", "            except ValueError as err:\n                raise err", ["C17-b"]),
    M("step-zero-accepted", ITF, "            if step <= 0 or int(step) != step:", "            if step < 0 or int(step) != step:", ["C17-b"]),
    M("step-fraction-accepted", ITF, "            if step <= 0 or int(step) != step:", "            if step <= 0:", ["C17-b"]),
    M("step-check-after-bind", ITF, "            if step <= 0 or int(step) != step:\n                raise lena.core.LenaValueError(\n                    \"step must be a natural number (integer >= 1)\"\n                )\n            if step != 1:", "            if step != 1:", ["C17-b"]),
    M("neg-step-ignored", ITF, "                self.run = lambda flow: islice(self._run_negative_islice(flow),\n                                               None, None, step)", "                self.run = lambda flow: self._run_negative_islice(flow)", ["C17-b"]),
    M("neg-step-offset", ITF, "                                               None, None, step)", "                                               step, None, step)", ["C17-b"]),
    M("start-stop-swapped", ITF, "            self._start, self._stop, step = s.start, s.stop, s.step", "            self._stop, self._start, step = s.start, s.stop, s.step", ["C17-b"]),
    M("stopfill-early", ITF, "        if self._index == self._next_index:\n            element.fill(value)\n        self._index += 1", "        if self._index == self._next_index:\n            element.fill(value)\n        else:\n            raise lena.core.LenaStopFill()\n        self._index += 1", ["C17-c"]),
    M("fill-unselected", ITF, "        if self._index == self._next_index:\n            element.fill(value)\n        self._index += 1", "        element.fill(value)\n        self._index += 1", ["C17-c"]),
    M("fetch-every-time", ITF, "        if self._index > self._next_index:\n            try:", "        if self._index >= self._next_index:\n            try:", ["C17-c"]),
    M("stopfill-valueerror", ITF, "            except StopIteration:\n                raise lena.core.LenaStopFill()", "            except StopIteration:\n                raise lena.core.LenaValueError()", ["C17-c"]),
    M("fill-deque-lifo", ITF, "            for _, val in zip(range(maxlen), flow):\n                d.appendleft(val)", "            for _, val in zip(range(maxlen), flow):\n                d.append(val)", ["C17-d"]),
    M("lag-pop-wrong-side", ITF, "                for val in flow:\n                    yield d.pop()\n                    d.appendleft(val)\n            else:", "                for val in flow:\n                    yield d.popleft()\n                    d.appendleft(val)\n            else:", ["C17-d"]),
    M("tail-pop-right", ITF, "                if stop is None:\n                    d = deque(flow, maxlen=-start)\n                    while True:\n                        try:\n                            yield d.popleft()", "                if stop is None:\n                    d = deque(flow, maxlen=-start)\n                    while True:\n                        try:\n                            yield d.pop()", ["C17-d"]),
    M("positive-stop-appendleft", ITF, "                        d.append(val)\n                        ind += 1", "                        d.appendleft(val)\n                        ind += 1", ["C17-d"]),
    M("chunk-appendleft", ELF, "                yield container(chunk)\n                chunk.append(val)  # head is popped automatically", "                yield container(chunk)\n                chunk.appendleft(val)", ["C17-d", "C17-e"]),
    M("window-too-long", ELF, "        chunk = collections.deque(itertools.islice(flow, chunk_size),\n                                  maxlen=chunk_size)", "        chunk = collections.deque(itertools.islice(flow, chunk_size),\n                                  maxlen=chunk_size + 1)", ["C17-e"]),
    M("window-first-short", ELF, "        chunk = collections.deque(itertools.islice(flow, chunk_size),", "        chunk = collections.deque(itertools.islice(flow, chunk_size - 1),", ["C17-e"]),
    M("window-append-before-yield", ELF, "                yield container(*chunk)\n                chunk.append(val)", "                chunk.append(val)\n                yield container(*chunk)", ["C17-e"]),
    M("window-last-unconditional", ELF, "            # flow contained enough elements\n            if len(chunk) == chunk_size:\n                yield container(chunk)", "            yield container(chunk)", ["C17-e"]),
    M("window-last-missing", ELF, "                chunk.append(val)\n            if len(chunk) == chunk_size:\n                yield container(*chunk)", "                chunk.append(val)", ["C17-e"]),
    M("window-no-iter", ELF, "        flow = iter(flow)\n\n        chunk = collections.deque", "        chunk = collections.deque", ["C17-e"]),
    TW("chain-yield-from", ITF, "        for val in itertools.chain(*self._iterables):\n            yield val", "        yield from itertools.chain(*self._iterables)"),
    TW("guard-generator", ITF, "        if all([val is None or val >= 0 for val in args]):", "        if all(arg is None or arg >= 0 for arg in args):"),
    TW("window-size-attr", ELF, "        chunk = collections.deque(itertools.islice(flow, chunk_size),\n                                  maxlen=chunk_size)", "        chunk = collections.deque(itertools.islice(flow, self._cs),\n                                  maxlen=self._cs)"),
]
