"""C10 -- elements pass values they do not select through unchanged."""
import ast

from .. import astutil as A
from .. import paths as P
from ..effects import Effects, alias_roots
from ..loader import methods
from ..selftest.runner import M, TW, V
from . import common as K

PROPERTY = "C10"
EXPLANATION = (
    "Path/effect rule over the per-value loop of the ten selective elements.  A path through the loop body whose "
    "last yield is the bare loop variable is a PASS path (the selection predicate is not modelled: it is whatever "
    "sends control there).  Decided on every enumerated path: (a) identity -- the loop variable is not rebound "
    "before it is yielded and no path yields a tuple rebuilt from the unmodified unpacked components of the "
    "value; (b) purity -- on a PASS path nothing is stored/deleted through the value or any alias derived from it, "
    "no known mutator receives such an alias (tree functions are summarised for parameter mutation), and no "
    "file-system or subprocess effect is executed (transitively through helpers); (c) no path drops the value "
    "silently (a path without a yield must raise, defer the value to the documented job pool, warn about empty "
    "results, or be a zero-iteration of an inner result loop); (d) statelessness -- no loop-carried local "
    "definitions and no write to self in the loop body, so the output for selected values cannot depend on "
    "interleaved unselected ones, and nothing after the loop reads what the last iteration left in the loop's variables (and, tree-wide, no data-path method of any class writes through self except six named stateful "
    "elements with the fields they may write, and no nested function changes what it captured from its creating call); (e) every True exit of Write.run's selection predicate has established the condition under "
    "which the body calls data.write, or that the data is a string.  (g) The selection verdict of MapBins / IterateBins / HistToGraph is taken on the example bin: for a histogram "
    "get_example_bin descends exactly struct.dim levels (get_bin_on_index over struct.bins), never 'while it is a list' -- a bin whose "
    "content is itself a list is the bin, not something to descend into.  (h) The predicates that send a value to the PASS path "
    "(is_tex_file, is_pdf, is_writable, _is_csv, _select_template_or_default) never subscript the value's context: they are "
    "total and effect-free on every context a dictionary subclass can be.  Does not decide which values are selected."    " Added after the eighth round of seeded changes and the second round of behaviour-preserving changes: (j) OPTION HONOURED: every field the constructor of a selective element stores from an argument is read by a method on its data path (nested helpers of run included)."
)
RULES = {
    "C10-j": "OPTION HONOURED: every option a selective element stores in its constructor from an argument is read by one of its "
             "data-path methods (an accepted but ignored select_bins / get_example_bin silently selects other values)",
    "C10-i": "SELECTION KEYS (siblings): is_pdf / is_tex_file read context.output.filetype and nothing else",
    "C10-a": "identity: a passed value is the loop variable itself, never rebound, never a rebuilt tuple",
    "C10-b": "PURE: no mutation through the value or its aliases and no file-system/subprocess effect on a PASS path",
    "C10-c": "no silent drop: every path through the loop body yields, raises, defers (job pool) or warns",
    "C10-d": "STATELESS: no loop-carried definitions, no writes to self in the per-value loop",
    "C10-e": "AGREE: Write.run's selection predicate and its dispatch use the same condition for objects with a write method "
             "(a value selected as writable is either such an object or a string)",
    "C10-g": "DEPTH BY DIMENSION: the example bin of a histogram is found by its dimension (get_bin_on_index([0]*dim, bins)), "
             "not by descending while the content is a list",
    "C10-h": "TOTAL SELECTION: the selection predicates of the output elements (is_*/_is_*/_select*) read the context through "
             "get_recursively / in / .get -- never by subscripting it, which raises for (or, with __missing__, changes) the very "
             "values that are to be passed on",
    "C10-f": "NO HIDDEN STATE: the data-path methods (run, __call__, fill_into and the adapters' drivers) of every class in lena "
             "write nothing through self, the named stateful elements excepted: what an element yields for a value cannot depend on "
             "the values, or the runs, that came before",
}

INSTANCES = [
    ("lena.output.to_csv", "ToCSV.run"),
    ("lena.output.write", "Write.run"),
    ("lena.output.render_latex", "RenderLaTeX.run"),
    ("lena.output.latex_to_pdf", "LaTeXToPDF.run"),
    ("lena.output.pdf_to_png", "PDFToPNG.run"),
    ("lena.structures.elements", "HistToGraph.run"),
    ("lena.structures.split_into_bins", "MapBins.run"),
    ("lena.structures.split_into_bins", "IterateBins.run"),
    ("lena.flow.elements", "RunIf.run"),
    ("lena.flow.group_plots", "MapGroup.run"),
]
# named exceptions (one symbol each, reason)
SELF_STATE_EXCEPTIONS = {
    ("lena.output.latex_to_pdf", "LaTeXToPDF.run", "processes"):
        "the job pool: affects when finished jobs are yielded, not what is produced",
}
DEFER_CALLS = {"launch": "value handed to the pdflatex job pool (documented asynchronous element)"}
PASS_FLOOR = {"ToCSV.run": 3, "Write.run": 2, "RenderLaTeX.run": 1, "LaTeXToPDF.run": 1, "PDFToPNG.run": 1,
              "HistToGraph.run": 1, "MapBins.run": 2, "IterateBins.run": 2, "RunIf.run": 1, "MapGroup.run": 1}


def flow_loop(ctx, fn):
    params = [p for p in A.func_params(fn) if p != "self"]
    if not params:
        return None
    flow = params[0]
    loops = [n for n in A.walk_local(fn) if isinstance(n, ast.For) and isinstance(n.iter, ast.Name) and n.iter.id == flow]
    # only top-level loops of the function (not nested in another loop)
    loops = [l for l in loops if A.enclosing(l, (ast.For, ast.While)) is None]
    if len(loops) != 1 or not isinstance(loops[0].target, ast.Name):
        return None
    return loops[0]


def yield_value(y):
    return y.value if isinstance(y, ast.Yield) else None


def unpack_targets(p, upto, var):
    """Names bound on path p (before event index upto) by unpacking
    get_data_context(var) / get_data(var) / get_context(var), and not rebound since."""
    comp = {}
    for i, e in enumerate(p.ev[:upto]):
        if e[0] != "stmt":
            continue
        s = e[1]
        if isinstance(s, ast.Assign) and isinstance(s.value, ast.Call) and s.value.args \
                and isinstance(s.value.args[0], ast.Name) and s.value.args[0].id == var \
                and A.call_name(s.value) in ("get_data_context", "get_data", "get_context") and len(s.targets) == 1:
            t = s.targets[0]
            if isinstance(t, ast.Tuple) and A.call_name(s.value) == "get_data_context" and len(t.elts) == 2:
                for k, el in zip(("data", "context"), t.elts):
                    if isinstance(el, ast.Name):
                        comp[el.id] = k
            elif isinstance(t, ast.Name):
                comp[t.id] = A.call_name(s.value)[4:]
            continue
        for tgt in A.assigned_targets(s):
            for nm in A.target_names(tgt):
                comp.pop(nm, None)
    return comp


def check_instance(ctx, eff, modname, qual):
    fn = ctx.tree.func(modname, qual)
    loop = flow_loop(ctx, fn)
    if not ctx.require(loop is not None, "C10-a", fn, "%s: expected exactly one `for V in flow` loop" % qual):
        return
    var = loop.target.id
    allpaths = P.loop_body_paths(loop)
    n_pass = 0
    seen = set()
    for p in allpaths:
        ys = p.yields()
        if not ys:
            if p.end in ("raise", "return"):
                continue
            check_drop(ctx, qual, loop, p)
            continue
        # rebuilt tuple anywhere on the path
        for idx, y in ys:
            v = yield_value(y)
            if isinstance(v, ast.Tuple) and len(v.elts) == 2 and all(isinstance(e, ast.Name) for e in v.elts):
                comp = unpack_targets(p, idx, var)
                if comp.get(v.elts[0].id) == "data" and comp.get(v.elts[1].id) == "context":
                    # the context object may have been updated in place (that is processing); a PASS requires
                    # that nothing was done through it
                    touched = first_effect(ctx, eff, p, var, upto=idx)
                    if touched is None:
                        ctx.violation("C10-a", y, "%s yields the rebuilt tuple `%s` of the unmodified components of the value "
                                      "instead of the value itself: the object identity is lost and a value without context "
                                      "becomes a (data, {}) pair" % (qual, A.src(v)), path=p)
        last_idx, last = ys[-1]
        lv = yield_value(last)
        if not (isinstance(lv, ast.Name) and lv.id == var):
            continue
        # PASS path
        key = (A.src(last), tuple(p.literal_srcs()), tuple(A.src(e[1].type) if e[1].type else "" for e in p.ev if e[0] == "exc"))
        if key in seen:
            continue
        seen.add(key)
        n_pass += 1
        rebound = None
        for e in p.ev[:last_idx]:
            if e[0] == "stmt":
                for tgt in A.assigned_targets(e[1]):
                    if var in A.target_names(tgt):
                        rebound = e[1]
            elif e[0] == "iter" and e[1] is not loop and var in A.target_names(e[1].target):
                rebound = e[1]
        ctx.check("C10-a", rebound is None, last, "%s: on the pass path [%s] the loop variable `%s` is rebound by `%s` before it is "
                  "yielded" % (qual, p.describe(), var, A.short(rebound, 50) if rebound is not None else ""),
                  detail="%s: `yield %s` passes the pulled object itself [%s]" % (qual, var, p.describe(4)), path=p)
        eff_found = first_effect(ctx, eff, p, var)
        if eff_found is None:
            ctx.ok("C10-b", last, "%s: pass path [%s] has no mutation through `%s` or its aliases and no file-system effect" % (
                qual, p.describe(4), var))
        else:
            node, what = eff_found
            ctx.violation("C10-b", node, "%s: on the path that passes the value on unchanged [%s], %s" % (qual, p.describe(), what),
                          path=p)
    short = qual
    ctx.instances_floor("C10/pass:%s" % short, n_pass, PASS_FLOOR.get(qual, 1), "distinct pass paths")
    check_stateless(ctx, modname, qual, fn, loop, allpaths)


def check_drop(ctx, qual, loop, p):
    calls = [A.call_name(c) for e in p.ev if e[0] == "stmt" for c in A.walk_local(e[1]) if isinstance(c, ast.Call)]
    srcs = [A.src(c.func) for e in p.ev if e[0] == "stmt" for c in A.walk_local(e[1]) if isinstance(c, ast.Call)]
    if any(c in DEFER_CALLS for c in calls):
        ctx.ok("C10-c", loop, "%s: path without yield defers the value: %s" % (qual, DEFER_CALLS[[c for c in calls if c in DEFER_CALLS][0]]),
               nontrivial=False)
        return
    if "warnings.warn" in srcs:
        ctx.ok("C10-c", loop, "%s: path without yield warns about empty results" % qual, nontrivial=False)
        return
    # zero iterations of an inner loop whose body yields
    for e in p.ev:
        if e[0] == "loop0" and e[1] is not loop and any(isinstance(n, (ast.Yield, ast.YieldFrom)) for n in A.walk_local(e[1])):
            ctx.ok("C10-c", loop, "%s: path without yield is a zero-result iteration of `%s`" % (qual, A.short(e[1].iter, 40)),
                   nontrivial=False)
            return
    ctx.violation("C10-c", loop, "%s: the path [%s] through the per-value loop yields nothing: the value is dropped, neither passed "
                  "on nor processed" % (qual, p.describe()), construct="drop:" + p.describe(), path=p)


def first_effect(ctx, eff, p, var, upto=None):
    """First mutation through an alias of var / file-system effect on path p."""
    names = {var}
    events = p.ev if upto is None else p.ev[:upto]
    for e in events:
        k = e[0]
        nodes = []
        if k in ("stmt", "partial"):
            nodes = [e[1]]
        elif k == "cond":
            nodes = [e[1]]
        elif k == "iter":
            nodes = [e[1].iter]
        elif k == "with":
            nodes = [i.context_expr for i in e[1].items]
        for top in nodes:
            for n in A.walk_local(top):
                m = eff.mutation_through(n, names)
                if m:
                    return n, "`%s` changes the value in place (%s; aliases of `%s`: %s)" % (
                        A.short(n if not isinstance(n, (ast.Subscript, ast.Attribute)) else (A.enclosing(n, (ast.stmt,)) or n), 70),
                        m, var, ", ".join(sorted(names)))
                if isinstance(n, ast.Call):
                    f = eff.fs_effect_of_call(n)
                    if f:
                        return n, "`%s` touches the file system / launches a process (%s)" % (A.short(n, 60), f)
        # alias propagation
        if k == "stmt":
            s = e[1]
            if isinstance(s, ast.Assign):
                roots = alias_roots(s.value)
                for t in s.targets:
                    if isinstance(t, (ast.Name, ast.Tuple, ast.List)):
                        for nm in A.target_names(t):
                            if roots & names:
                                names.add(nm)
                            else:
                                names.discard(nm) if nm != var else None
        elif k == "iter" and (alias_roots(e[1].iter) & names):
            names.update(A.target_names(e[1].target))
    return None


def check_stateless(ctx, modname, qual, fn, loop, allpaths, rule="C10-d"):
    # writes to self in the loop body (directly or through same-class helpers / closures one level)
    bad = []
    for n in A.walk_body(loop.body):
        w = self_write(n)
        if w:
            bad.append((n, w))
        if isinstance(n, ast.Call):
            callee = None
            if isinstance(n.func, ast.Name):
                t = ctx.res.resolve(n.func)
                if t is not None and t.is_func and A.enclosing_func(t.node) is fn:
                    callee = t.node
            elif A.is_self_attr(n.func):
                cls = A.enclosing_class(fn)
                callee = methods(cls).get(n.func.attr) if cls is not None else None
            if callee is not None:
                for x in A.walk_local(callee, include_self=False):
                    w = self_write(x)
                    if w:
                        bad.append((n, w))
            # self.<field> handed to a closure that mutates its parameter
            for a in n.args:
                if A.is_self_attr(a) and callee is not None:
                    eff = Effects(ctx.res)
                    params = [p for p in A.func_params(callee) if p != "self"]
                    i = n.args.index(a)
                    if i < len(params) and params[i] in eff.mutated_params(callee):
                        bad.append((n, a.attr))
    reported = set()
    for n, field in bad:
        if (modname, qual, field) in SELF_STATE_EXCEPTIONS:
            ctx.ok(rule, n, "%s: self.%s is written per value -- named exception: %s" % (
                qual, field, SELF_STATE_EXCEPTIONS[(modname, qual, field)]), nontrivial=False)
            continue
        if field in reported:
            continue
        reported.add(field)
        ctx.violation(rule, n, "%s writes self.%s inside the per-value loop: what is produced for a selected value can depend on "
                      "the (unselected) values that came before it" % (qual, field), construct="self-write:%s" % field)
    if not reported:
        ctx.ok(rule, loop, "%s: no write to self in the per-value loop" % qual)
    # loop-carried local definitions
    assigned = set()
    comp_locals = set()
    for n in A.walk_body(loop.body):
        if isinstance(n, ast.Name) and isinstance(n.ctx, ast.Store):
            if A.enclosing(n, (ast.ListComp, ast.SetComp, ast.DictComp, ast.GeneratorExp, ast.Lambda)) is not None \
                    and A.enclosing_func(n) is not fn:
                continue
            comp = A.enclosing(n, (ast.ListComp, ast.SetComp, ast.DictComp, ast.GeneratorExp))
            if comp is not None and loop in list(A.ancestors(comp)):
                comp_locals.add(n.id)
                continue
            assigned.add(n.id)
    assigned.discard(loop.target.id)
    carried = {}
    for p in allpaths:
        done = {loop.target.id}
        for e in p.ev:
            k = e[0]
            reads, writes = [], []
            if k in ("stmt", "partial"):
                s = e[1]
                if isinstance(s, ast.AugAssign) and isinstance(s.target, ast.Name):
                    reads.append(s.target)
                for n in A.walk_local(s):
                    if isinstance(n, ast.Name):
                        if isinstance(n.ctx, ast.Load):
                            reads.append(n)
                        elif isinstance(n.ctx, ast.Store):
                            writes.append(n.id)
            elif k == "cond":
                reads = [n for n in A.walk_local(e[1]) if isinstance(n, ast.Name) and isinstance(n.ctx, ast.Load)]
            elif k == "iter":
                reads = [n for n in A.walk_local(e[1].iter) if isinstance(n, ast.Name) and isinstance(n.ctx, ast.Load)]
                writes = A.target_names(e[1].target)
            elif k == "with":
                for it in e[1].items:
                    reads += [n for n in A.walk_local(it.context_expr) if isinstance(n, ast.Name) and isinstance(n.ctx, ast.Load)]
                    if it.optional_vars is not None:
                        writes += A.target_names(it.optional_vars)
            elif k == "exc" and e[1].name:
                writes = [e[1].name]
            for r in reads:
                if r.id in assigned and r.id not in done and r.id not in carried:
                    comp = A.enclosing(r, (ast.ListComp, ast.SetComp, ast.DictComp, ast.GeneratorExp))
                    if comp is not None and r.id in {t for g in comp.generators for t in A.target_names(g.target)}:
                        continue
                    carried[r.id] = (r, p)
            if k != "partial":
                done.update(writes)
    for name, (node, p) in sorted(carried.items()):
        ctx.violation(rule, node, "%s: local `%s` is read in an iteration before that iteration assigns it (path [%s]) and is "
                      "assigned in the loop: its value is carried over from the previous value of the flow, so the result for "
                      "one value depends on the values interleaved before it" % (qual, name, p.describe(4)),
                      construct="loop-carried:%s" % name, path=p)
    if not carried:
        ctx.ok(rule, loop, "%s: no loop-carried local definition (%d locals assigned in the loop)" % (qual, len(assigned)))
    # what the loop leaves in its variables is the *last* value of the flow: nothing after the loop may read it
    leftover = set(assigned) | {loop.target.id}
    rebound = set()
    late = []

    def reads_of(node):
        for x in A.walk_local(node):
            if isinstance(x, ast.Name) and isinstance(x.ctx, ast.Load) and x.id in leftover and x.id not in rebound:
                comp = A.enclosing(x, (ast.ListComp, ast.SetComp, ast.DictComp, ast.GeneratorExp, ast.Lambda))
                if comp is not None and not isinstance(comp, ast.Lambda) and x.id in {t for g in comp.generators for t in A.target_names(g.target)}:
                    continue
                if isinstance(comp, ast.Lambda) and x.id in A.func_params(comp):
                    continue
                late.append(x)

    def scan(stmts):
        for st in stmts:
            if isinstance(st, (ast.FunctionDef, ast.AsyncFunctionDef, ast.ClassDef)):
                continue
            if isinstance(st, (ast.For, ast.AsyncFor)):
                reads_of(st.iter)
                rebound.update(A.target_names(st.target))
                scan(st.body)
                scan(st.orelse)
            elif isinstance(st, ast.While):
                reads_of(st.test)
                scan(st.body)
                scan(st.orelse)
            elif isinstance(st, ast.If):
                reads_of(st.test)
                scan(st.body)
                scan(st.orelse)
            elif isinstance(st, (ast.With, ast.AsyncWith)):
                for it in st.items:
                    reads_of(it.context_expr)
                    if it.optional_vars is not None:
                        rebound.update(A.target_names(it.optional_vars))
                scan(st.body)
            elif isinstance(st, ast.Try):
                scan(st.body)
                for h in st.handlers:
                    if h.name:
                        rebound.add(h.name)
                    scan(h.body)
                scan(st.orelse)
                scan(st.finalbody)
            elif isinstance(st, ast.Delete):
                for t in st.targets:
                    if isinstance(t, ast.Name):
                        rebound.add(t.id)
                    else:
                        reads_of(t)
            else:
                if isinstance(st, ast.AugAssign):
                    reads_of(st.target) if not isinstance(st.target, ast.Name) else (
                        late.append(st.target) if st.target.id in leftover and st.target.id not in rebound else None)
                if getattr(st, "value", None) is not None:
                    reads_of(st.value)
                elif not isinstance(st, (ast.Assign, ast.AnnAssign, ast.AugAssign)):
                    reads_of(st)
                for t in A.assigned_targets(st):
                    if not isinstance(t, ast.Name):
                        reads_of(t)
                    rebound.update(A.target_names(t))

    sibs = getattr(A.parent(loop), "body", [])
    if loop in sibs:
        scan(sibs[sibs.index(loop) + 1:])
    seen_late = set()
    for x in late:
        if x.id in seen_late:
            continue
        seen_late.add(x.id)
        ctx.violation(rule, x, "%s reads `%s` after the per-value loop (`%s`): it holds whatever the last value of the flow left there, so "
                      "what happens after the loop -- waiting for the jobs that were started, yielding their results -- depends on an "
                      "unselected value that merely came last" % (qual, x.id, A.short(A.enclosing(x, (ast.stmt,)) or x, 50)),
                      construct="after-loop-read:%s" % x.id)
    if not late:
        ctx.ok(rule, loop, "%s: nothing after the loop reads what the last iteration left in %s" % (qual, ", ".join(sorted(leftover))[:60]))


def self_write(n):
    if isinstance(n, (ast.Attribute, ast.Subscript)) and isinstance(n.ctx, (ast.Store, ast.Del)) and A.root_name(n) == "self":
        ch = n
        while isinstance(ch, (ast.Subscript, ast.Attribute)) and not A.is_self_attr(ch):
            ch = ch.value
        return ch.attr if A.is_self_attr(ch) else "?"
    if isinstance(n, ast.AugAssign) and A.root_name(n.target) == "self":
        ch = n.target
        while isinstance(ch, (ast.Subscript, ast.Attribute)) and not A.is_self_attr(ch):
            ch = ch.value
        return ch.attr if A.is_self_attr(ch) else "?"
    if isinstance(n, ast.Call) and isinstance(n.func, ast.Attribute) and A.root_name(n.func.value) == "self" \
            and not A.is_self_attr(n.func) and n.func.attr in (
                "update", "pop", "popitem", "clear", "append", "extend", "insert", "remove", "sort", "reverse",
                "setdefault", "add", "discard", "appendleft"):
        ch = n.func.value
        while isinstance(ch, (ast.Subscript, ast.Attribute)) and not A.is_self_attr(ch):
            ch = ch.value
        return ch.attr if A.is_self_attr(ch) else "?"
    return None


def check_write_agree(ctx):
    """Write.run selects with the nested predicate is_writable(data, context) and later dispatches on
    `hasattr(data, 'write') and callable(data.write)`.  Every path on which the predicate answers True must have
    established either that dispatch condition or that the data is a string: otherwise a foreign object (a namedtuple
    with a field `write`) is selected, its context is filled in and it falls into the string branch."""
    res = ctx.res
    fn = ctx.tree.func("lena.output.write", "Write.run")
    preds = [d for d in fn.body if isinstance(d, ast.FunctionDef)]
    if not preds:
        # the same predicate as a module-level function of lena.output.write, called with (data, context) in run()
        for c in A.walk_local(fn):
            if isinstance(c, ast.Call) and isinstance(c.func, ast.Name) and len(c.args) == 2 and not c.keywords:
                t = res.resolve(c.func)
                if t is not None and t.is_func and isinstance(t.node, ast.FunctionDef) and A.enclosing_class(t.node) is None \
                        and getattr(getattr(t.node, "_module", None), "name", "lena.output.write") == "lena.output.write" \
                        and t.node not in preds and len(A.func_params(t.node)) == 2:
                    preds.append(t.node)
    loop = flow_loop(ctx, fn)
    if not ctx.require(len(preds) == 1 and loop is not None and len(A.func_params(preds[0])) == 2, "C10-e", fn,
                       "Write.run: the nested selection predicate was not found"):
        return
    pred = preds[0]
    pd = A.func_params(pred)[0]
    # the dispatch: the if whose body calls <data>.write(...)
    disp = None
    for i in A.walk_body(loop.body):
        if isinstance(i, ast.If) and any(isinstance(c, ast.Call) and isinstance(c.func, ast.Attribute) and c.func.attr == "write"
                                          and isinstance(c.func.value, ast.Name) for s2 in i.body for c in ast.walk(s2)):
            disp = i
            break
    if not ctx.require(disp is not None, "C10-e", loop, "Write.run: the dispatch on a write method was not found"):
        return
    wcall = [c for s2 in disp.body for c in ast.walk(s2) if isinstance(c, ast.Call) and isinstance(c.func, ast.Attribute) and c.func.attr == "write"][0]
    dd = wcall.func.value.id
    want = sorted(A.norm_src(t, {dd: "DATA"}).replace('"', "'") for t, pol in A.literals(disp.test, True) if pol)
    n = 0
    for p in P.paths_of(pred):
        if p.end != "return":
            continue
        r = [x for x in p.stmts() if isinstance(x, ast.Return)][-1]
        if not (isinstance(r.value, ast.Constant) and r.value.value is True):
            if not (isinstance(r.value, ast.Constant) and r.value.value is False):
                ctx.unknown("C10-e", r, "is_writable returns `%s`" % A.short(r.value, 40))
            continue
        n += 1
        have = [(A.norm_src(t, {pd: "DATA"}).replace('"', "'"), pol) for t, pol in p.literals()]
        pos = {s2 for s2, pol in have if pol}
        neg = {s2 for s2, pol in have if not pol}
        via_write = all(w in pos for w in want)
        # the string exits: every isinstance(DATA, str)-like test on the path was passed or the final fall-through after them
        strish = ("isinstance(DATA, str)" in pos) or ("isinstance(DATA, str)" not in neg and any("isinstance(DATA, str" in s2 for s2 in pos)) \
            or ("isinstance(DATA, str)" in neg and "isinstance(DATA, basestring)" in pos)
        mentions_write = any("write" in s2 for s2 in pos)
        ok = via_write or (not mentions_write and (strish or "isinstance(DATA, str)" not in neg))
        ctx.check("C10-e", ok, r, "is_writable answers True on the path [%s], which has established neither the condition under which "
                  "Write.run calls data.write (%s) nor that the data is a string: such a value is selected, gets output.* written into "
                  "its context and is then treated as text" % (p.describe(4), " and ".join(want).replace("DATA", pd)),
                  detail="is_writable True [%s] agrees with the dispatch" % p.describe(3), construct="writable:%s" % ",".join(sorted(pos)), path=p)
    ctx.instances_floor("C10-e", n, 2, "True-returning paths of Write.run's selection predicate")


# data-path methods that are documented to keep state, with the fields they may write (anything else is reported)
STATEFUL_DATA_PATH = {
    ("lena.flow.elements", "Count", "run"): ({"count"}, "Count counts the values that pass"),
    ("lena.flow.elements", "Count", "fill_into"): ({"count"}, "Count counts the values that pass"),
    ("lena.flow.iterators", "Slice", "fill_into"): ({"_index", "_next_index", "_indices"}, "position of the slice within the filled flow"),
    ("lena.flow.group_plots", "GroupPlots", "run"): ({"_group_by"}, "deprecated element that groups the whole flow"),
    ("lena.output.latex_to_pdf", "LaTeXToPDF", "run"): ({"processes"}, "pool of running pdflatex jobs (affects when, not what)"),
    ("lena.flow.drop_context", "DropContext", "run"): ({"cur_context"}, "the context of the value being processed, restored on the results"),
}
DATA_PATH = ("run", "__call__", "fill_into", "_call_run", "_fc_run", "_run_fill_into")
_MUT = ("append", "appendleft", "extend", "extendleft", "clear", "pop", "popleft", "insert", "remove", "update", "add", "setdefault",
        "discard", "sort", "reverse", "popitem", "rotate")


def check_no_hidden_state(ctx):
    """A memo, a cache of the last value or a window kept on the element makes its output for one value depend on earlier
    values or earlier runs (and survives a run that the consumer abandoned).  On the pinned tree 6 of 54 data-path methods
    write through self; each is documented as stateful and listed with the fields it may write."""
    n = 0
    for mod, cls in ctx.tree.classes():
        ms = methods(cls)
        for name in DATA_PATH:
            fn = ms.get(name)
            if fn is None:
                continue
            n += 1
            allowed, why = STATEFUL_DATA_PATH.get((mod.name, cls.name, name), (set(), ""))
            # local aliases of self fields
            alias = {}
            for st in A.walk_local(fn):
                if isinstance(st, ast.Assign) and len(st.targets) == 1 and isinstance(st.targets[0], ast.Name) and A.is_self_attr(st.value):
                    alias[st.targets[0].id] = st.value.attr
            written = {}
            for x in A.walk_local(fn):
                if isinstance(x, (ast.Assign, ast.AugAssign, ast.Delete)):
                    tgts = A.assigned_targets(x) if not isinstance(x, ast.Delete) else x.targets
                    for tg in tgts:
                        if isinstance(tg, (ast.Attribute, ast.Subscript)) and A.root_name(tg) == "self":
                            f = tg
                            while isinstance(f, (ast.Subscript, ast.Attribute)) and not A.is_self_attr(f):
                                f = f.value
                            if A.is_self_attr(f):
                                written.setdefault(f.attr, x)
                        elif isinstance(tg, ast.Subscript) and isinstance(tg.value, ast.Name) and tg.value.id in alias:
                            written.setdefault(alias[tg.value.id], x)
                elif isinstance(x, ast.Call) and isinstance(x.func, ast.Attribute) and x.func.attr in _MUT:
                    r = x.func.value
                    f = r
                    while isinstance(f, (ast.Subscript, ast.Attribute)) and not A.is_self_attr(f):
                        f = f.value
                    if A.is_self_attr(f):
                        written.setdefault(f.attr, x)
                    elif isinstance(r, ast.Name) and r.id in alias:
                        written.setdefault(alias[r.id], x)
            extra = {f: st for f, st in written.items() if f not in allowed}
            if not extra:
                ctx.ok("C10-f", fn, "%s.%s writes %s through self" % (cls.name, name, "only " + ", ".join(sorted(written)) + " (" + why + ")" if written else "nothing"),
                       nontrivial=bool(written) or name == "run")
                continue
            for f, st in sorted(extra.items()):
                ctx.violation("C10-f", st, "%s.%s keeps state in the element (`%s`): what it yields for a value can depend on the values "
                              "and runs that came before, and the state of a run the consumer abandoned is still there at the next "
                              "run%s" % (cls.name, name, A.short(st, 60), "; this element may only write " + ", ".join(sorted(allowed)) if allowed else ""),
                              construct="hidden-state:%s.%s.%s" % (cls.name, name, f))
    ctx.instances_floor("C10-f", n, 45, "data-path methods in lena")
    # the same for closures: a function created once (in __init__, by a factory) and applied to every value must not
    # change what it captured from the creating call
    n_top = 0
    for mod, fn in ctx.tree.functions():
        if A.enclosing_func(fn) is not None:
            continue
        n_top += 1
        for inner, name, node, how in K.closure_mutations(fn):
            ctx.violation("C10-f", node, "%s, created in %s, %s -- a variable of the creating call that all its applications share: its "
                          "result for a value depends on the values (and runs) that came before" % (
                              "a lambda" if isinstance(inner, ast.Lambda) else "`%s`" % inner.name, A.qualname(fn), how),
                          construct="closure-state:%s:%s" % (A.qualname(fn), name))
    ctx.instances_floor("C10-f/closures", n_top, 400, "top-level functions and methods scanned for closure state")
    ctx.ok("C10-f", ("lena", "<tree>"), "no nested function of %d functions/methods changes what it captured" % n_top)


def check_example_bin(ctx):
    """MapBins(select_bins=...), IterateBins and HistToGraph decide on get_example_bin(struct).  A histogram knows its dimension;
    its bins may hold lists (vectors, lists of histograms) as content.  Descending by type would look inside the content."""
    res = ctx.res
    HF = "lena.structures.hist_functions"
    fn = ctx.tree.func(HF, "get_example_bin")
    sp = A.func_params(fn)[0]
    n = 0
    for p in P.paths_of(fn):
        is_hist = any(pol and isinstance(t, ast.Call) and A.call_name(t) == "isinstance" and len(t.args) == 2 and A.src(t.args[0]) == sp
                      and (res.canon(t.args[1]) or "").endswith("histogram") for t, pol in p.literals())
        if not is_hist or p.end != "return":
            continue
        n += 1
        by_type = [t for t, pol in p.literals() if isinstance(t, ast.Call) and A.call_name(t) == "isinstance" and len(t.args) == 2
                   and A.src(t.args[0]) != sp and any(isinstance(x, ast.Name) and x.id in ("list", "tuple") for x in ast.walk(t.args[1]))]
        calls = [c for _, c in p.calls() if (res.call_canon(c) or "").endswith("get_bin_on_index")]
        ok = not by_type and len(calls) == 1 and len(calls[0].args) == 2 and A.src(calls[0].args[1]) == "%s.bins" % sp \
            and "%s.dim" % sp in A.src(calls[0].args[0])
        ctx.check("C10-g", ok, fn, "get_example_bin finds the example bin of a histogram %s on the path [%s]: a bin whose content is a list "
                  "(select_bins=[vector3, list]; a histogram of lists of histograms) is taken apart, the selectors of MapBins, "
                  "IterateBins and HistToGraph judge its first element, and an unselected histogram is transformed instead of passed on"
                  % ("by descending while the content is a list (`%s`)" % A.short(by_type[0], 40) if by_type else
                     "without get_bin_on_index([0] * %s.dim, %s.bins)" % (sp, sp), p.describe(4)),
                  detail="histogram: example bin by dimension [%s]" % p.describe(3), construct="example-bin-by-type", path=p)
    ctx.instances_floor("C10-g", n, 1, "paths of get_example_bin for a histogram")


PRED_MODULES = ("lena.output.to_csv", "lena.output.write", "lena.output.render_latex", "lena.output.latex_to_pdf",
                "lena.output.pdf_to_png", "lena.structures.elements", "lena.structures.split_into_bins", "lena.flow.elements",
                "lena.flow.group_plots")


def check_total_selection(ctx):
    """The predicate runs for *every* value, selected or not.  context["output"]["filetype"] (a) raises TypeError out of the element
    when context["output"] is not a dictionary -- the value and everything after it are lost -- and (b) inserts a key into a
    context with __missing__ (defaultdict), altering a value that is then passed on as 'unchanged'."""
    import re
    res = ctx.res
    n = 0
    for mod, fn in ctx.tree.functions():
        if mod.name not in PRED_MODULES or not re.match(r"_?(is|select)_?", fn.name):
            continue
        n += 1
        # names holding the value's context (or the value): parameters and what get_context/get_data_context return
        ctxn = set(A.func_params(fn)) - {"self"}
        for st in A.walk_local(fn):
            if isinstance(st, ast.Assign) and isinstance(st.value, ast.Call) and A.call_name(st.value) in ("get_context", "get_data_context", "get_data"):
                for tg in st.targets:
                    ctxn.update(A.target_names(tg))
        bad = [x for x in A.walk_local(fn) if isinstance(x, ast.Subscript) and isinstance(x.ctx, ast.Load) and A.root_name(x) in ctxn
               and not isinstance(x.slice, ast.Slice)]
        # positional unpacking of the value itself (value[0], value[1]) is not a context look-up
        bad = [x for x in bad if not (isinstance(x.value, ast.Name) and A.int_const(x.slice) is not None)]
        ctx.check("C10-h", not bad, bad[0] if bad else fn, "the selection predicate %s subscripts the value's context (`%s`): for a value it does "
                  "not select this can raise (a KeyError/TypeError leaves the element: the value and all that follow are lost) or, for a "
                  "dictionary subclass with __missing__, insert the key into a context that is then passed on as unchanged; the other "
                  "predicates use get_recursively(context, key, default)" % (A.qualname(fn), A.short(bad[0], 50) if bad else ""),
                  detail="%s reads the context without subscripting it" % A.qualname(fn), construct="predicate-subscript:%s" % fn.name)
    ctx.instances_floor("C10-h", n, 5, "selection predicates of the output elements")


def check_converter_selection_keys(ctx):
    """PDFToPNG and LaTeXToPDF select their input by `context.output.filetype` alone ("pdf" / "tex"): the sibling predicates
    is_pdf / is_tex_file read that key and no other.  A predicate that falls back to another key (output.fileext, the file
    name) selects values the documentation says pass unchanged: they get their context rewritten and a converter launched."""
    res = ctx.res
    n = 0
    for mod, qual, want in (("lena.output.pdf_to_png", "PDFToPNG.run.is_pdf", "pdf"), ("lena.output.latex_to_pdf", "LaTeXToPDF.run.is_tex_file", "tex")):
        fn = ctx.tree.maybe(mod, qual)
        if fn is None:
            ctx.unknown("C10-i", ctx.tree.module(mod).tree, "%s: the selection predicate %s not found" % (mod, qual))
            continue
        keys = []
        other = []
        for c in A.walk_local(fn):
            if isinstance(c, ast.Call) and (res.call_canon(c) or "").endswith("get_recursively") and len(c.args) >= 2:
                k = A.const(c.args[1])
                keys.append(k if isinstance(k, str) else A.src(c.args[1]))
            elif isinstance(c, ast.Subscript) and isinstance(A.const(c.slice), str):
                other.append(A.src(c))
            elif isinstance(c, ast.Call) and isinstance(c.func, ast.Attribute) and c.func.attr == "get" and c.args and isinstance(A.const(c.args[0]), str):
                other.append(A.src(c))
        n += 1
        ctx.check("C10-i", set(keys) == {"output.filetype"} and not other, fn, "%s decides by %s: the converter selects by output.filetype "
                  "alone, a value without that key (or with another type) passes unchanged"
                  % (qual, sorted(set(keys) | set(other))), detail="%s reads only output.filetype" % qual, construct="selection-keys:%s" % qual)
        consts = [A.const(side) for x in A.walk_local(fn) if isinstance(x, ast.Compare) and len(x.ops) == 1
                  and isinstance(x.ops[0], (ast.Eq, ast.NotEq)) for side in (x.left, x.comparators[0]) if isinstance(A.const(side), str)]
        ctx.check("C10-i", set(consts) == {want}, fn, "%s compares the file type with %s, not with %r" % (qual, sorted(set(consts)), want),
                  detail="%s: filetype == %r" % (qual, want), construct="selection-const:%s" % qual)
    ctx.instances_floor("C10-i", n, 2, "converter selection predicates")


def check_options_honoured(ctx):
    """C10-j.  Which values a selective element selects is configured through its constructor.  An argument that is validated
    and stored, and then read by no method that handles values, leaves the element selecting by its defaults: with a custom
    get_example_bin MapBins would judge histograms by their first bin and transform those the user's function says are not
    selected."""
    from ..loader import methods as _methods
    n = 0
    bad = 0
    for modname, qual in INSTANCES:
        cname = qual.split(".")[0]
        cls = ctx.tree.cls(modname, cname)
        ms = _methods(cls)
        init = ms.get("__init__")
        if init is None:
            continue
        params = {p for p in A.func_params(init) if p != "self"}
        stored = {}
        for a in A.walk_local(init):
            if isinstance(a, ast.Assign):
                for t in a.targets:
                    if A.is_self_attr(t) and {x.id for x in ast.walk(a.value) if isinstance(x, ast.Name)} & params:
                        stored.setdefault(t.attr, a)
        reads = set()
        for name, m in ms.items():
            if name in ("__init__", "__eq__", "__ne__", "__repr__", "__str__", "__hash__"):
                continue
            for x in ast.walk(m):       # nested helpers of run() included
                if A.is_self_attr(x) and isinstance(x.ctx, ast.Load):
                    reads.add(x.attr)
        # a field read later in the constructor itself to build another stored field counts through that field
        for attr, a in sorted(stored.items()):
            n += 1
            used = attr in reads
            if not used:
                for b in A.walk_local(init):
                    if isinstance(b, ast.Assign) and b is not a and any(A.is_self_attr(x, attr) and isinstance(x.ctx, ast.Load) for x in ast.walk(b.value)) \
                            and any(A.is_self_attr(t) and t.attr in reads for t in b.targets):
                        used = True
            if not used:
                bad += 1
                ctx.violation("C10-j", a, "%s.__init__ stores its argument as self.%s, which no method of %s that handles values reads: the "
                              "option is accepted and ignored, so the element selects (and transforms) by its default where the caller "
                              "configured something else -- values the configured selection excludes are no longer passed on as the same "
                              "object" % (cname, attr, cname), construct="option-ignored:%s.%s" % (cname, attr))
    ctx.instances_floor("C10-j", n, 20, "options stored by the constructors of the selective elements")
    if not bad:
        ctx.ok("C10-j", ctx.tree.func(*INSTANCES[0]), "%d stored options are all read on the data path" % n)


def check(ctx):
    check_options_honoured(ctx)
    check_converter_selection_keys(ctx)
    check_total_selection(ctx)
    check_example_bin(ctx)
    check_no_hidden_state(ctx)
    check_write_agree(ctx)
    eff = Effects(ctx.res)
    ctx.instances_floor("C10", len(INSTANCES), 10, "selective elements")
    for modname, qual in INSTANCES:
        check_instance(ctx, eff, modname, qual)


VARIANTS = [
    M("mapbins-ignores-example-bin", "lena/structures/split_into_bins.py", "        get_example_bin = self._get_example_bin\n\n        for val in flow:", "        for val in flow:", ["C10-j"]),
    M("is-tex-by-filename", "lena/output/latex_to_pdf.py", "            if filetype == \"tex\":", "            if filetype == \"tex\" or lena.context.get_recursively(context, \"output.fileext\", None) == \"tex\":", ["C10-i"]),
    M("is-csv-by-subscript", "lena/output/render_latex.py", "    return _get_recursively(\n        context, \"output.filetype\", None\n    ) == \"csv\"", "    try:\n        return context[\"output\"][\"filetype\"] == \"csv\"\n    except KeyError:\n        return False", ["C10-h"]),
    M("latex-last-value-decides-wait", "lena/output/latex_to_pdf.py", "        # this data mustn't be reused\n        del val\n",
      "        if val is None:\n            return\n\n        # this data mustn't be reused\n        del val\n", ["C10-d"]),
    M("example-bin-by-type", "lena/structures/hist_functions.py", "        return lena.structures.get_bin_on_index([0] * struct.dim, struct.bins)\n    else:\n        bins = struct\n        while isinstance(bins, list):\n            bins = bins[0]\n        return bins",
      "        bins = struct.bins\n    else:\n        bins = struct\n    while isinstance(bins, list):\n        bins = bins[0]\n    return bins", ["C10-g"]),
    M("print-remembers-last", "lena/flow/print_.py", "    def __call__(self, value):", "    def __call__(self, value):\n        self._last = value", ["C10-f"]),
    M("writable-without-callable", "lena/output/write.py", "            if hasattr(data, \"write\") and callable(data.write):\n                return True", "            if hasattr(data, \"write\"):\n                return True", ["C10-e"]),
    M("tocsv-rebuild", "lena/output/to_csv.py", "            if not lena.context.get_recursively(context, \"output.to_csv\", True):\n                yield val",
      "            if not lena.context.get_recursively(context, \"output.to_csv\", True):\n                yield (data, context)", ["C10-a"]),
    M("render-update-before-select", "lena/output/render_latex.py", "        for val in flow:\n            if select_data(val):",
      "        for val in flow:\n            _update_recursively(lena.flow.get_context(val), {\"output\": {\"seen\": True}})\n            if select_data(val):", ["C10-b"]),
    M("pdftopng-touch", "lena/output/pdf_to_png.py", "            else:\n                yield val",
      "            else:\n                context.setdefault(\"output\", {})\n                yield val", ["C10-b"]),
    M("runif-counter", "lena/flow/elements.py", "            if self._select(val):\n                for result in self._seq.run([val]):",
      "            self._nseen = getattr(self, \"_nseen\", 0) + 1\n            if self._select(val):\n                for result in self._seq.run([val]):", ["C10-d"]),
    M("histtograph-drop", "lena/structures/elements.py", "                ):\n                yield val\n                continue",
      "                ):\n                continue", ["C10-c"]),
    M("write-makedirs-early", "lena/output/write.py", "            if not is_writable(data, context):\n                yield val",
      "            if not is_writable(data, context):\n                os.makedirs(self.output_directory, exist_ok=True)\n                yield val", ["C10-b"]),
    M("iteratebins-carried", "lena/structures/split_into_bins.py", "            data, hist_context = lena.flow.get_data_context(val)\n            # select histograms",
      "            data, hc = lena.flow.get_data_context(val)\n            if hc:\n                hist_context = hc\n            # select histograms", ["C10-d"]),
    TW("tocsv-comment", "lena/output/to_csv.py", "            # context allows conversion\n", "            # context allows the conversion\n"),
    TW("runif-rename", "lena/flow/elements.py", "                for result in self._seq.run([val]):\n                    yield result",
       "                for res_ in self._seq.run([val]):\n                    yield res_"),
]
