"""C14 -- variables compose like functions and keep each variable's description."""
import ast

from .. import astutil as A
from .. import paths as P
from ..loader import methods
from ..selftest.runner import M, TW, V
from . import common as K

PROPERTY = "C14"
EXPLANATION = (
    "Decides order, isolation and locality: (a) Compose's getter threads the value through var.getter over "
    "self._vars forwards and its context folds Variable._update_context over self._vars[1:] forwards from a copy "
    "of the first variable's context; Combine's getter builds the tuple by iterating self._vars forwards; "
    "(b) every var_context handed to _update_context anywhere in the tree, and every var_context stored in a "
    "combine tuple, is copy.deepcopy(<variable>.var_context) made for that call, and Variable.__call__ stores "
    "nothing through self; (c) inside Variable._update_context every store through the value's context has the "
    "constant first key 'variable' (other stores go through aliases of context['variable'] or of the new "
    "var_context), the loop that carries the subcontexts of earlier types over to the new context['variable'] ranges over "
    "the whole list stored under 'compose', and __call__ returns (getter(data), the unpacked context); (d) the constructors reject "
    "non-callable/Variable getters and empty/non-Variable argument lists with LenaTypeError before any state is "
    "built; (e) get_data, get_context and get_data_context split a value by the one predicate _has_context, which recognises a pair "
    "with isinstance (subclasses of dict are contexts); (f) no closure created in a loop of the variables module captures a "
    "per-iteration name by reference, and the conditions of _update_context read the keys type/compose/variable only; (g) the list of "
    "composed types is extended with a list (the applied variable's compose list) and appended a single type name; (h) no function or lambda nested in the variables module changes an object it captured from "
    "the call that created it (getters are functions of the value, without memo); (i) the **kwargs of the three constructors are handed to var_context.update "
    "whole -- no comprehension, loop or test selects among them by value.  Does not decide the nested-dictionary values (that compose lists types in order for all chains)."    " Added after the eighth round of seeded changes and the second round of behaviour-preserving changes: (j) TYPE KEYS LITERAL: in lena.variables.variable the path argument of update_recursively(d, path, v)/get_recursively/str_to_dict/contains is a string constant, never a type or name; the bulk form of the carry-over (cvar.update(<generator>)) keeps the guard `type not in cvar`."
)
RULES = {
    "C14-j": "TYPE KEYS LITERAL: the variables module addresses context.variable by plain keys; a type, a name or another user "
             "string is never handed to the dotted-path helpers of lena.context (where 'a.b' means nesting)",
    "C14-a": "FOLD: Compose getter/context and Combine getter iterate self._vars forwards, threading the value",
    "C14-b": "FRESH: every var_context given to _update_context / stored in combine is a per-call deepcopy; __call__ does not write self",
    "C14-c": "locality: _update_context stores only under context['variable'] and carries the subcontexts of all composed "
             "types over to the new one; __call__ returns (getter(data), context)",
    "C14-d": "TYPESTATE: Variable/Combine/Compose reject bad arguments with LenaTypeError before building state",
    "C14-e": "AGREE: get_data, get_context and get_data_context split a value by one and the same predicate, which accepts "
             "subclasses of tuple/dict (isinstance, not an exact-type test)",
    "C14-f": "no getter built in a loop captures the loop's variable by reference (late binding: every such closure would use the last "
             "variable); whether _update_context composes is decided by the presence of types only, never by names",
    "C14-h": "PURE GETTER: no function nested in the variables module changes what it captured from the call that created it "
             "(a getter with a memo returns the result of an earlier value for an object that was changed in place)",
    "C14-i": "ATTRIBUTES VERBATIM: the keyword attributes of Variable/Combine/Compose reach var_context whole (update(kwargs) / "
             "update(**kwargs)), never through a filter on their values: offset=0, log=False, unit='' are attributes",
    "C14-g": "KIND: the list of composed types is extended with a list (the applied variable's own compose list) and appended a single "
             "type; a type name (a string) is never handed to extend(), which would add its characters",
}
VAR = "lena.variables.variable"
LTE = "lena.core.exceptions.LenaTypeError"


def check_fold(ctx):
    res = ctx.res
    init = ctx.tree.func(VAR, "Compose.__init__")
    getters = [n for n in ast.walk(init) if isinstance(n, ast.FunctionDef) and n is not init]
    lam = [n for n in A.walk_local(init) if isinstance(n, ast.Lambda)]
    if not ctx.require(len(getters) == 1 and not lam, "C14-a", init, "Compose.__init__: expected one nested getter function"):
        return
    g = getters[0]
    params = A.func_params(g)
    if not ctx.require(len(params) == 1, "C14-a", g, "getter must take one parameter"):
        return
    carried = params[0]
    loops = [n for n in A.walk_local(g) if isinstance(n, ast.For)]
    if not ctx.require(len(loops) == 1, "C14-a", g, "getter: expected one loop"):
        return
    loop = loops[0]
    order = K.iter_order(loop.iter, "self._vars")
    if order == "unknown":
        ctx.unknown("C14-a", loop, "Compose getter iterates `%s`, which the analyser cannot relate to self._vars" % A.src(loop.iter))
        return
    ctx.check("C14-a", order == "forward", loop,
              "Compose getter iterates `%s`, not self._vars forwards: vn(...v1(x)) is not what is computed" % A.src(loop.iter),
              detail="Compose getter iterates self._vars forwards", construct="getter-iter:%s" % A.src(loop.iter))
    var = loop.target.id if isinstance(loop.target, ast.Name) else None
    body_ok = False
    rebinds = [n for n in A.walk_local(g) if isinstance(n, (ast.Assign, ast.AugAssign))
               and any(carried in A.target_names(t) for t in A.assigned_targets(n))]
    if len(rebinds) == 1 and isinstance(rebinds[0], ast.Assign) and A.enclosing(rebinds[0], (ast.For,)) is loop:
        v = rebinds[0].value
        body_ok = isinstance(v, ast.Call) and A.src(v.func) == "%s.getter" % var and len(v.args) == 1 \
            and A.src(v.args[0]) == carried and not v.keywords
    ctx.check("C14-a", body_ok, loop, "Compose getter does not thread the value as `%s = var.getter(%s)` once per variable" % (carried, carried),
              detail="value threaded through var.getter", construct="getter-body")
    rets = [n for n in A.walk_local(g) if isinstance(n, ast.Return)]
    ctx.check("C14-a", len(rets) == 1 and rets[0].value is not None and A.src(rets[0].value) == carried
              and A.enclosing(rets[0], (ast.For,)) is None, g,
              "Compose getter does not return the threaded value after the loop", detail="returns the threaded value",
              construct="getter-return")
    # every path of the loop body executes the rebind exactly once, no continue/break skipping a variable
    for p in P.loop_body_paths(loop):
        n = sum(1 for s in p.stmts() if s in rebinds)
        ctx.check("C14-a", n == 1 and p.end == "fall", loop, "Compose getter: a path through the loop [%s] applies %d getters / leaves "
                  "the loop early" % (p.describe(), n), detail="one getter per variable on path [%s]" % p.describe(),
                  construct="getter-path:" + p.describe(), path=p)
    # context fold
    cloops = [n for n in A.walk_local(init) if isinstance(n, ast.For)]
    if not ctx.require(len(cloops) == 1, "C14-a", init, "Compose.__init__: expected one context loop"):
        return
    cl = cloops[0]
    # `self._vars = args` with args never rebound: the constructor may read the variables through either name
    vars_alias = {}
    for a in A.walk_local(init):
        if isinstance(a, ast.Assign) and len(a.targets) == 1 and A.is_self_attr(a.targets[0], "_vars") and isinstance(a.value, ast.Name):
            nm_ = a.value.id
            rebound = [x for x in A.walk_local(init) if isinstance(x, (ast.Assign, ast.AugAssign, ast.For))
                       and any(nm_ in A.target_names(t) for t in A.assigned_targets(x))]
            if not rebound and a.lineno < cl.lineno:
                vars_alias[nm_] = a.targets[0]
        elif isinstance(a, ast.Expr) and isinstance(a.value, ast.Call) and A.src(a.value.func) == "object.__setattr__" \
                and len(a.value.args) == 3 and A.src(a.value.args[0]) == "self" and A.const(a.value.args[1]) == "_vars" \
                and isinstance(a.value.args[2], ast.Name):
            nm_ = a.value.args[2].id
            rebound = [x for x in A.walk_local(init) if isinstance(x, (ast.Assign, ast.AugAssign, ast.For))
                       and any(nm_ in A.target_names(t) for t in A.assigned_targets(x))]
            if not rebound and a.lineno < cl.lineno:
                vars_alias[nm_] = ast.parse("self._vars").body[0].value
    corder = K.iter_order(K.expand(cl.iter, vars_alias), "self._vars", allow_slice="self._vars[1:]")
    if corder == "unknown":
        ctx.unknown("C14-a", cl, "Compose context loop iterates `%s`, which the analyser cannot relate to self._vars" % A.src(cl.iter))
        return
    ctx.check("C14-a", corder == "forward" and A.src(cl.iter) != "self._vars", cl,
              "Compose context loop iterates `%s`, not self._vars[1:] forwards" % A.src(cl.iter),
              detail="context folds over self._vars[1:] forwards", construct="context-iter:%s" % A.src(cl.iter))
    calls = [c for c in A.walk_local(cl) if isinstance(c, ast.Call) and A.call_name(c) == "_update_context"]
    ctx.check("C14-a", len(calls) == 1, cl, "Compose context loop must call _update_context once per variable",
              detail="one _update_context per variable", construct="context-call-count")
    if calls:
        acc = A.src(calls[0].args[0]) if calls[0].args else None
        inits = [n for n in init.body if isinstance(n, ast.Assign) and any(A.src(t) == acc for t in n.targets)]
        ok = False
        if len(inits) == 1 and isinstance(inits[0].value, ast.Dict) and len(inits[0].value.keys) == 1 \
                and A.const(inits[0].value.keys[0]) == "variable":
            v = inits[0].value.values[0]
            al = dict(K.func_aliases(init))
            al.update(vars_alias)
            ok = res.is_call_to(v, "copy.deepcopy") and A.src(K.expand(v.args[0], al)) == "self._vars[0].var_context"
        ctx.check("C14-a", ok, init, "Compose context fold does not start from {'variable': deepcopy(self._vars[0].var_context)}",
                  detail="fold starts from a copy of the first variable's context", construct="context-init")
        final = [n for n in init.body if isinstance(n, ast.Assign) and A.src(n.value) == "%s['variable']" % acc]
        ctx.check("C14-a", len(final) == 1 and final[0].lineno > cl.lineno, init,
                  "Compose does not take its var_context from the folded %s['variable']" % acc,
                  detail="var_context = folded context", construct="context-final")
    # Combine getter
    cinit = ctx.tree.func(VAR, "Combine.__init__")
    lams = [n for n in A.walk_local(cinit) if isinstance(n, ast.Lambda)]
    nested = [n for n in ast.walk(cinit) if isinstance(n, ast.FunctionDef) and n is not cinit]
    cands = lams + nested
    found = False
    for lam in cands:
        body = lam.body if isinstance(lam, ast.Lambda) else None
        if body is None:
            rets = [r for r in A.walk_local(lam) if isinstance(r, ast.Return)]
            body = rets[0].value if len(rets) == 1 else None
        if isinstance(body, ast.Call) and A.call_name(body) == "tuple" and body.args \
                and isinstance(body.args[0], (ast.GeneratorExp, ast.ListComp)):
            ge = body.args[0]
            found = True
            p = A.func_params(lam)[0]
            ok = len(ge.generators) == 1 and A.src(ge.generators[0].iter) == "self._vars" and not ge.generators[0].ifs \
                and isinstance(ge.elt, ast.Call) and A.src(ge.elt.func) == "%s.getter" % A.src(ge.generators[0].target) \
                and len(ge.elt.args) == 1 and A.src(ge.elt.args[0]) == p
            ctx.check("C14-a", ok, lam, "Combine getter is not tuple(var.getter(val) for var in self._vars)",
                      detail="Combine getter applies every getter to the value, in order", construct="combine-getter")
    if not found and any(A.enclosing_func(x[0]) is not None for x in K.closure_mutations(cinit)):
        return      # reported by C14-h: the getter keeps state, its shape is not the point any more
    ctx.require(found, "C14-a", cinit, "Combine getter not recognised")


ALLOWED_FOREIGN_ATTRS = {"getter", "var_context", "name"}
OWN_ROOTS = {"self", "lena", "copy", "object", "Variable", "super"}
CONTAINER_LITERALS = (ast.Dict, ast.List, ast.Tuple, ast.Set, ast.Constant)


def own_locals(fn):
    """Locals of *fn* (however they are called) that only ever name containers built in fn itself:
    every binding is a plain `name = <expr>` whose value is a dict/list/tuple literal or an alias /
    item of another such local.  Loop and comprehension targets, unpacked names, names bound in nested
    functions and parameters are never own: they may name an argument variable."""
    params = set(A.func_params(fn))
    values, other, simple = {}, set(), set()
    for n in ast.walk(fn):
        if n is not fn and isinstance(n, A.FUNC):
            params.update(A.func_params(n))
        if isinstance(n, ast.Assign) and len(n.targets) == 1 and isinstance(n.targets[0], ast.Name) \
                and A.enclosing_func(n) is fn:
            values.setdefault(n.targets[0].id, []).append(n.value)
            simple.add(id(n.targets[0]))
    for n in ast.walk(fn):
        if isinstance(n, ast.Name) and isinstance(n.ctx, (ast.Store, ast.Del)) and id(n) not in simple:
            other.add(n.id)
        elif isinstance(n, ast.ExceptHandler) and n.name:
            other.add(n.name)
        elif isinstance(n, (ast.Global, ast.Nonlocal)):
            other.update(n.names)
    own = set()
    changed = True
    while changed:
        changed = False
        for name, vals in values.items():
            if name in own or name in other or name in params:
                continue
            if all(isinstance(v, CONTAINER_LITERALS) or (isinstance(v, (ast.Name, ast.Subscript)) and A.root_name(v) in own)
                   for v in vals):
                own.add(name)
                changed = True
    return own


def check_black_box(ctx):
    """Compose/Combine treat each argument variable as a black box: the only
    attributes read from an object other than self are getter, var_context and
    name.  Reaching into a variable's private parts (arg._vars) would make a
    Combine inside a Compose behave differently from the same Combine in a Sequence."""
    n = 0
    for qual in ("Compose.__init__", "Combine.__init__"):
        fn = ctx.tree.func(VAR, qual)
        skip = OWN_ROOTS | own_locals(fn)
        if fn.args.kwarg is not None:
            skip.add(fn.args.kwarg.arg)
        for x in ast.walk(fn):
            attr = base = None
            if isinstance(x, ast.Attribute) and isinstance(x.ctx, ast.Load):
                attr, base = x.attr, x.value
            elif isinstance(x, ast.Call) and A.call_name(x) in ("getattr", "hasattr") and len(x.args) >= 2 \
                    and isinstance(x.args[1], ast.Constant) and isinstance(x.args[1].value, str):
                attr, base = x.args[1].value, x.args[0]
            if attr is None:
                continue
            root = A.root_name(base) if isinstance(base, (ast.Name, ast.Attribute, ast.Subscript)) else None
            if root is None or root in skip:
                continue
            if isinstance(base, ast.Call):
                continue
            t = ctx.res.resolve(base) if isinstance(base, (ast.Name, ast.Attribute)) else None
            if t is not None and t.kind in ("module", "ext", "def", "builtin"):
                continue
            n += 1
            ctx.check("C14-a", attr in ALLOWED_FOREIGN_ATTRS or not attr.startswith("_"), x,
                      "%s reads the private attribute %r of an argument variable (`%s`): composition must use only the "
                      "variable's getter and var_context, otherwise a Combine or Compose given as an argument is taken apart"
                      % (qual, attr, A.short(x, 60)), detail="%s reads .%s of an argument variable" % (qual, attr))
    ctx.instances_floor("C14-a/black-box", n, 3, "attribute reads on argument variables in Compose/Combine constructors")


def is_fresh_var_context(ctx, arg, call):
    """arg is copy.deepcopy(<x>.var_context), directly or through a local
    assigned in the same (innermost) loop body / function body."""
    res = ctx.res
    if res.is_call_to(arg, "copy.deepcopy") and arg.args and A.src(arg.args[0]).endswith(".var_context"):
        return True
    if isinstance(arg, ast.Name):
        fn = A.enclosing_func(call)
        loop = A.enclosing(call, (ast.For, ast.While))
        scope = loop if loop is not None else fn
        assigns = [n for n in A.walk_local(fn) if isinstance(n, ast.Assign) and any(A.src(t) == arg.id for t in n.targets)]
        if assigns and all(res.is_call_to(a.value, "copy.deepcopy") and A.src(a.value.args[0]).endswith(".var_context")
                           and (loop is None or loop in list(A.ancestors(a))) for a in assigns):
            # and not used by another _update_context call in the same iteration
            uses = [c for c in A.walk_local(scope) if isinstance(c, ast.Call) and A.call_name(c) == "_update_context"
                    and len(c.args) > 1 and A.src(c.args[1]) == arg.id]
            return len(uses) == 1
    return False


def check_fresh(ctx):
    res = ctx.res
    n = 0
    for mod in ctx.tree.modules.values():
        for call in ast.walk(mod.tree):
            if isinstance(call, ast.Call) and A.call_name(call) == "_update_context" and len(call.args) == 2:
                fn = A.enclosing_func(call)
                if fn is None:
                    continue
                n += 1
                ctx.check("C14-b", is_fresh_var_context(ctx, call.args[1], call), call,
                          "_update_context is given `%s` instead of a fresh copy.deepcopy(<variable>.var_context): the value's "
                          "context would alias the variable's own description, so applying the variable changes the variable "
                          "(and later values)" % A.src(call.args[1]),
                          detail="_update_context receives deepcopy(var_context)")
    ctx.instances_floor("C14-b", n, 4, "_update_context call sites with a var_context argument")
    # combine tuple
    cinit = ctx.tree.func(VAR, "Combine.__init__")
    stores = [s for s in A.walk_local(cinit) if isinstance(s, ast.Assign)
              and any(isinstance(t, ast.Subscript) and A.const(t.slice) == "combine" for t in s.targets)]
    ok = False
    if len(stores) == 1:
        v = stores[0].value
        if isinstance(v, ast.Call) and A.call_name(v) == "tuple" and v.args and isinstance(v.args[0], (ast.GeneratorExp, ast.ListComp)):
            ge = v.args[0]
            ok = res.is_call_to(ge.elt, "copy.deepcopy") and A.src(ge.elt.args[0]).endswith(".var_context") \
                and A.src(ge.generators[0].iter) == "self._vars" and not ge.generators[0].ifs
    ctx.check("C14-b", ok, cinit, "Combine does not store tuple(deepcopy(var.var_context) for var in self._vars) under 'combine'",
              detail="combine holds deep copies of every variable's context, in order", construct="combine-store")
    # __call__ writes nothing through self
    call = ctx.tree.func(VAR, "Variable.__call__")
    for n_ in A.walk_local(call):
        bad = None
        if isinstance(n_, (ast.Attribute, ast.Subscript)) and isinstance(n_.ctx, (ast.Store, ast.Del)) and A.root_name(n_) == "self":
            bad = n_
        if isinstance(n_, ast.Call) and isinstance(n_.func, ast.Attribute) and A.root_name(n_.func.value) == "self" \
                and n_.func.attr in ("update", "append", "extend", "pop", "clear", "setdefault", "__setattr__"):
            bad = n_
        if isinstance(n_, ast.Call) and A.src(n_.func) in ("object.__setattr__", "setattr") and n_.args and A.src(n_.args[0]) == "self":
            bad = n_
        if bad is not None:
            ctx.violation("C14-b", bad, "Variable.__call__ modifies the variable (%s): repeated application would not give equal results"
                          % A.short(bad, 60))
    ctx.ok("C14-b", call, "Variable.__call__ stores nothing through self")


def check_locality(ctx):
    fn = ctx.tree.func(VAR, "Variable._update_context")
    params = A.func_params(fn)
    if not ctx.require(len(params) == 2, "C14-c", fn, "unexpected signature of _update_context"):
        return
    cparam, vparam = params
    # aliases of context["variable"] / var_context
    inner = {vparam}
    for n in A.walk_local(fn):
        if isinstance(n, ast.Assign) and len(n.targets) == 1 and isinstance(n.targets[0], ast.Name):
            v = n.value
            s = A.src(v)
            if s.startswith("%s.get('variable'" % cparam) or s == "%s['variable']" % cparam:
                inner.add(n.targets[0].id)
    changed = True
    while changed:
        changed = False
        for n in A.walk_local(fn):
            if isinstance(n, ast.Assign) and len(n.targets) == 1 and isinstance(n.targets[0], ast.Name):
                r = A.root_name(n.value) if isinstance(n.value, (ast.Subscript, ast.Attribute, ast.Name)) else None
                if r in inner and n.targets[0].id not in inner:
                    inner.add(n.targets[0].id)
                    changed = True
    n_st = 0
    for n in A.walk_local(fn):
        target = None
        if isinstance(n, (ast.Subscript, ast.Attribute)) and isinstance(n.ctx, (ast.Store, ast.Del)):
            target = n
        elif isinstance(n, ast.Call) and isinstance(n.func, ast.Attribute) and n.func.attr in (
                "update", "pop", "clear", "setdefault", "popitem", "append", "extend", "insert", "remove"):
            target = n.func.value
        if target is None:
            continue
        root = A.root_name(target)
        if root in inner:
            n_st += 1
            ctx.ok("C14-c", n, "store through %s (alias of context['variable'] / the new var_context)" % root, nontrivial=False)
            continue
        if root == cparam:
            # first subscript key after the root must be the constant "variable"
            chain = target
            first = None
            while isinstance(chain, (ast.Subscript, ast.Attribute)):
                if isinstance(chain, ast.Subscript) and isinstance(chain.value, ast.Name) and chain.value.id == cparam:
                    first = chain
                chain = chain.value
            ok = first is not None and A.const(first.slice) == "variable" and isinstance(n, (ast.Subscript, ast.Attribute))
            n_st += 1
            ctx.check("C14-c", ok, n, "_update_context changes `%s`: a part of the value's context other than context.variable"
                      % A.short(n, 60), detail="store under context['variable']: %s" % A.short(n, 50))
        elif root is not None and root not in ("self",):
            # stores into fresh locals (composed list etc.)
            local_new = any(isinstance(a, ast.Assign) and any(A.src(t) == root for t in a.targets)
                            and isinstance(a.value, (ast.List, ast.Dict, ast.Tuple, ast.Constant))
                            for a in A.walk_local(fn))
            if not local_new:
                ctx.unknown("C14-c", n, "store through `%s`, whose origin the analyser does not know" % root)
    ctx.instances_floor("C14-c", n_st, 4, "stores in _update_context")
    check_carry_over(ctx, fn, inner)
    # __call__ result
    call = ctx.tree.func(VAR, "Variable.__call__")
    rets = [r for r in A.walk_local(call) if isinstance(r, ast.Return)]
    ok = False
    if len(rets) == 1 and isinstance(rets[0].value, ast.Tuple) and len(rets[0].value.elts) == 2:
        d, c = rets[0].value.elts
        unpack = [a for a in A.walk_local(call) if isinstance(a, ast.Assign) and isinstance(a.targets[0], ast.Tuple)
                  and A.call_name(a.value) == "get_data_context" if isinstance(a.value, ast.Call)]
        if unpack and isinstance(d, ast.Name) and isinstance(c, ast.Name):
            dn, cn = [A.src(e) for e in unpack[0].targets[0].elts]
            reb = [a for a in A.walk_local(call) if isinstance(a, ast.Assign) and any(A.src(t) == dn for t in a.targets) and a is not unpack[0]]
            creb = [a for a in A.walk_local(call) if isinstance(a, (ast.Assign, ast.AugAssign))
                    and any(cn in A.target_names(t) for t in A.assigned_targets(a)) and a is not unpack[0]]
            ok = c.id == cn and d.id == dn and len(reb) == 1 and A.src(reb[0].value) == "self.getter(%s)" % dn and not creb
            if not ok and c.id == cn and not creb and not reb:
                # the transformed data under a name of its own: `new = self.getter(data) ... return (new, context)`
                defs = [a for a in A.walk_local(call) if isinstance(a, (ast.Assign, ast.AugAssign, ast.For))
                        and any(d.id in A.target_names(t) for t in A.assigned_targets(a))]
                ok = len(defs) == 1 and isinstance(defs[0], ast.Assign) and A.src(defs[0].value) == "self.getter(%s)" % dn \
                    and A.enclosing(defs[0], (ast.If, ast.For, ast.While, ast.Try)) is None
    ctx.check("C14-c", ok, call, "Variable.__call__ does not return (self.getter(data), context) with the unpacked context",
              detail="__call__ returns (getter(data), the value's own context)", construct="call-return")


def whole_extent(expr, name):
    """Does iterating *expr* visit every element of the list called *name*?  'whole' (the list itself, possibly
    through iter/list/tuple/reversed/sorted/set, which keep every element), 'part' (a slice, an index, filter,
    islice of it), 'unknown' (not related to the list by the analyser)."""
    if isinstance(expr, ast.Name):
        return "whole" if expr.id == name else "unknown"
    if isinstance(expr, ast.Call) and expr.args:
        inner = whole_extent(expr.args[0], name)
        cn = A.call_name(expr)
        if cn in ("iter", "list", "tuple", "reversed", "set", "frozenset") and len(expr.args) == 1 and not expr.keywords:
            return inner
        if cn == "sorted" and len(expr.args) == 1:      # key=/reverse= change the order only
            return inner
        if cn == "islice" and inner != "unknown":
            return "part"
        if cn == "filter" and len(expr.args) == 2 and whole_extent(expr.args[1], name) != "unknown":
            return "part"
        return "unknown"
    if isinstance(expr, ast.Subscript) and whole_extent(expr.value, name) != "unknown":
        return "part"
    return "unknown"


def check_carry_over(ctx, fn, inner):
    """context['variable'] is replaced by the new var_context on every application, so the subcontexts of
    *all* earlier types have to be carried over each time: the loop that stores cvar[<type>] for the types of the
    composition must range over the whole list that is stored under 'compose', not over a part of it.
    All names are derived: *inner* are the aliases of context['variable'] / var_context, the list is the name
    stored under the constant key 'compose', the loops are those storing <alias>[<loop variable>]."""
    lists = set()
    other = False
    for n in A.walk_local(fn):
        if isinstance(n, ast.Assign):
            for t in n.targets:
                if isinstance(t, ast.Subscript) and A.const(t.slice) == "compose":
                    if isinstance(n.value, ast.Name):
                        lists.add(n.value.id)
                    elif not isinstance(n.value, (ast.List, ast.ListComp)):
                        other = True
    loops = []
    for loop in A.walk_local(fn):
        if not isinstance(loop, ast.For) or not isinstance(loop.target, ast.Name):
            continue
        tv = loop.target.id
        if any(isinstance(t, ast.Subscript) and isinstance(t.ctx, ast.Store) and A.root_name(t) in inner
               and isinstance(t.slice, ast.Name) and t.slice.id == tv for t in A.walk_body(loop.body)):
            loops.append(loop)
    # the same carry-over written as one bulk update: <alias>.update((t, old[t]) for t in <list> if t not in <alias> ...)
    bulk = []
    for c in A.walk_local(fn):
        if isinstance(c, ast.Call) and isinstance(c.func, ast.Attribute) and c.func.attr == "update" and A.root_name(c.func.value) in inner \
                and len(c.args) == 1 and isinstance(c.args[0], (ast.GeneratorExp, ast.ListComp, ast.DictComp)) and len(c.args[0].generators) == 1 \
                and isinstance(c.args[0].generators[0].target, ast.Name):
            bulk.append(c)
    for c in bulk:
        g = c.args[0].generators[0]
        tv = g.target.id
        guarded = any(isinstance(t, ast.Compare) and len(t.ops) == 1 and isinstance(t.ops[0], ast.NotIn) and A.src(t.left) == tv
                      and A.root_name(t.comparators[0]) in inner
                      for cond in g.ifs for t, pol in A.literals(cond, True) if pol)
        ctx.check("C14-c", guarded, c, "_update_context carries the earlier types over with `%s`, which also overwrites a key the new "
                  "variable context already has: when the applied variable has the same type as an earlier one, its own sub-context "
                  "under that type is replaced by the old variable's, so context.variable no longer describes the variable that was "
                  "applied (the loop form guards with `type not in cvar`)" % A.short(c, 70),
                  detail="bulk carry-over only for types the new context lacks", construct="carry-over-overwrites")
    if bulk and not loops:
        return
    if not ctx.require(loops and len(lists) == 1 and not other, "C14-c", fn,
                       "_update_context: the loop carrying earlier types over to the new context['variable'] / the list "
                       "stored under 'compose' not recognised"):
        return
    lst = sorted(lists)[0]
    for loop in loops:
        ext = whole_extent(loop.iter, lst)
        if ext == "unknown":
            ctx.unknown("C14-c", loop, "_update_context carries earlier types over by iterating `%s`, which the analyser cannot "
                        "relate to the list stored under 'compose'" % A.short(loop.iter, 60))
            continue
        ctx.check("C14-c", ext == "whole", loop,
                  "_update_context carries over the subcontexts of only a part of the composed types (`%s`): "
                  "context['variable'] is replaced on every application, so the description of an earlier variable is "
                  "lost under its type as soon as the chain is longer than that part" % A.short(loop.iter, 60),
                  detail="subcontexts of all composed types are carried over to the new context['variable']",
                  construct="carry-over-extent")


def tests_each_is_variable(node):
    """*node* contains a comprehension that applies isinstance(<its own target>, Variable) to its elements
    (whatever the comprehension variable is called)."""
    for comp in ast.walk(node):
        if not isinstance(comp, (ast.GeneratorExp, ast.ListComp, ast.SetComp)):
            continue
        targets = set()
        for g in comp.generators:
            targets.update(A.target_names(g.target))
        for c in ast.walk(comp):
            if isinstance(c, ast.Call) and A.call_name(c) == "isinstance" and isinstance(c.func, ast.Name) and len(c.args) == 2 \
                    and isinstance(c.args[0], ast.Name) and c.args[0].id in targets and A.src(c.args[1]) == "Variable":
                return True
    return False


def negated_names(test):
    """Names n such that `not n` occurs in *test*."""
    return {u.operand.id for u in ast.walk(test)
            if isinstance(u, ast.UnaryOp) and isinstance(u.op, ast.Not) and isinstance(u.operand, ast.Name)}


def variable_flags(fn):
    """name -> value for the locals of *fn* that record whether the arguments are Variables: bound exactly
    once in fn, by a plain top-level `name = <expr>` whose value applies isinstance(<element>, Variable)
    to the elements of a comprehension.  The local is identified by its definition, not by its name."""
    bound = {}
    for n in ast.walk(fn):
        if isinstance(n, ast.Name) and isinstance(n.ctx, (ast.Store, ast.Del)):
            bound[n.id] = bound.get(n.id, 0) + 1
    out = {}
    for st in fn.body:
        if isinstance(st, ast.Assign) and len(st.targets) == 1 and isinstance(st.targets[0], ast.Name) \
                and bound.get(st.targets[0].id) == 1 and tests_each_is_variable(st.value):
            out[st.targets[0].id] = st.value
    return out


def guards_before_state(ctx, fn, label, needed):
    """Every needed (key, matcher, why) has an `if` whose taken branch raises LenaTypeError, located before
    the first store of state.  matcher is a fragment of the test's source made of API names only
    (parameters, module-level names), or a predicate on the test node where locals are involved; key is
    the name-free text used in messages and finding keys."""
    res = ctx.res
    first_state = None
    for st in fn.body:
        for n in A.walk_local(st):
            if (isinstance(n, ast.Call) and A.src(n.func) in ("object.__setattr__",)) or (
                    isinstance(n, ast.Attribute) and isinstance(n.ctx, ast.Store) and A.root_name(n) == "self") or (
                    isinstance(n, ast.Call) and isinstance(n.func, ast.Attribute) and isinstance(n.func.value, ast.Call)
                    and A.call_name(n.func.value) == "super"):
                first_state = first_state or st
        if first_state:
            break
    for frag, matcher, why in needed:
        if matcher is None:
            matcher = (lambda test, frag=frag: frag in A.src(test))
        hit = None
        for st in fn.body:
            if first_state is not None and st is first_state:
                break
            if isinstance(st, ast.If) and matcher(st.test):
                raises = [r for r in st.body if isinstance(r, ast.Raise)]
                if raises and raises[0].exc is not None:
                    e = raises[0].exc.func if isinstance(raises[0].exc, ast.Call) else raises[0].exc
                    if res.canon(e) == LTE:
                        hit = st
        ctx.check("C14-d", hit is not None, fn, "%s: no `if ...%s...: raise LenaTypeError` before state is built (%s)" % (label, frag, why),
                  detail="%s rejects %s with LenaTypeError before building state" % (label, why), construct="guard:%s" % frag)


def check_constructors(ctx):
    # getter, args are parameters (API names); the flag local of Combine and the comprehension variables are
    # recognised by what they are bound to, the keys keep the names used in the documentation of the rule
    guards_before_state(ctx, ctx.tree.func(VAR, "Variable.__init__"), "Variable.__init__",
                        [("isinstance(getter, Variable)", None, "a Variable as getter"),
                         ("not callable(getter)", None, "a non-callable getter")])
    cinit = ctx.tree.func(VAR, "Combine.__init__")
    flags = variable_flags(cinit)
    guards_before_state(ctx, cinit, "Combine.__init__",
                        [("not args", None, "an empty argument list"),
                         ("not all_vars", lambda test: bool(negated_names(test) & set(flags)), "non-Variable arguments")])
    guards_before_state(ctx, ctx.tree.func(VAR, "Compose.__init__"), "Compose.__init__",
                        [("not args", None, "an empty argument list"),
                         ("isinstance(arg, Variable)", tests_each_is_variable, "non-Variable arguments")])
    ctx.check("C14-d", len(flags) == 1 and all(A.call_name(v) == "all" and isinstance(v.func, ast.Name) for v in flags.values()),
              cinit, "Combine.__init__: all_vars is not all(isinstance(arg, Variable) ...)", detail="all_vars tests every argument",
              construct="all_vars")


def check_value_split(ctx):
    """Variable.__call__ splits the value with get_data_context.  The three splitting helpers document one notion of
    '(data, context) pair' (a 2-tuple whose second item is a dictionary *or a subclass*, e.g. lena.context.Context):
    they must all decide by the one predicate, and the predicate must use isinstance."""
    res = ctx.res
    FF = "lena.flow.functions"
    pred = ctx.tree.func(FF, "_has_context")
    pp = A.func_params(pred)[0]
    # the predicate: only isinstance/len tests, never type(x) is / ==
    exact = [c for c in A.walk_local(pred) if isinstance(c, ast.Compare) and any(isinstance(x, ast.Call) and res.call_canon(x) == "builtins.type"
                                                                                  for x in [c.left] + list(c.comparators))]
    inst = [c for c in A.walk_local(pred) if isinstance(c, ast.Call) and res.call_canon(c) == "builtins.isinstance" and len(c.args) == 2]
    kinds = sorted(res.canon(c.args[1]) or A.src(c.args[1]) for c in inst)
    ctx.check("C14-e", not exact and kinds == ["builtins.dict", "builtins.tuple"], pred, "_has_context does not recognise a pair by "
              "isinstance(value, tuple) and isinstance(value[1], dict) (%s%s): a context of a dict subclass (lena.context.Context, "
              "OrderedDict) would be taken for data" % (kinds, ", exact-type test `%s`" % A.short(exact[0], 40) if exact else ""),
              detail="_has_context: isinstance tests for tuple and dict", construct="has-context-predicate")
    n = 0
    for name in ("get_data", "get_context", "get_data_context"):
        fn = ctx.tree.func(FF, name)
        vp = A.func_params(fn)[0]
        for p in P.paths_of(fn):
            if p.end != "return":
                continue
            n += 1
            lits = p.literals()
            via_pred = [pol for t, pol in lits if isinstance(t, ast.Call) and res.call_canon(t) == FF + "._has_context"
                        and [A.src(a) for a in t.args] == [vp]]
            other = [t for t, pol in lits if not (isinstance(t, ast.Call) and res.call_canon(t) == FF + "._has_context")]
            ctx.check("C14-e", len(via_pred) == 1 and not other, fn, "%s decides whether the value has a context by `%s`, not by the common "
                      "predicate _has_context(value): the splitting helpers disagree on what a (data, context) pair is, so a variable "
                      "applied to such a value takes the whole pair for data and drops its context" % (
                          name, " and ".join(A.short(t, 40) for t in other) or "nothing"),
                      detail="%s splits by _has_context(value) [%s]" % (name, p.describe(2)), construct="split-predicate:%s" % name, path=p)
            r = [x for x in p.stmts() if isinstance(x, ast.Return)][-1]
            if via_pred:
                want = {"get_data": ("%s[0]" % vp, vp), "get_context": ("%s[1]" % vp, "{}"),
                        "get_data_context": ("(%s[0], %s[1])" % (vp, vp), "(%s, {})" % vp)}[name][0 if via_pred[0] else 1]
                ctx.check("C14-e", A.src(r.value) == want, r, "%s returns `%s` for a value %s context, expected `%s`" % (
                    name, A.src(r.value), "with" if via_pred[0] else "without", want), detail="%s -> %s" % (name, want),
                    construct="split-result:%s:%s" % (name, via_pred[0]), path=p)
    ctx.instances_floor("C14-e", n, 6, "return paths of the value-splitting helpers")


def check_closures_and_guard(ctx):
    res = ctx.res
    mod = ctx.tree.module(VAR)
    n_loops = 0
    for loop in ast.walk(mod.tree):
        if not isinstance(loop, (ast.For, ast.While)):
            continue
        n_loops += 1
        varying = set(A.target_names(loop.target)) if isinstance(loop, ast.For) else set()
        for x in A.walk_body(loop.body):
            if isinstance(x, ast.Name) and isinstance(x.ctx, ast.Store):
                varying.add(x.id)
        for f in A.walk_body(loop.body):
            if not isinstance(f, (ast.Lambda, ast.FunctionDef)):
                continue
            params = set(A.func_params(f))
            body = [f.body] if isinstance(f, ast.Lambda) else f.body
            loads = {x.id for b in body for x in ast.walk(b) if isinstance(x, ast.Name) and isinstance(x.ctx, ast.Load)}
            stores = {x.id for b in body for x in ast.walk(b) if isinstance(x, ast.Name) and isinstance(x.ctx, ast.Store)}
            captured = (loads - params - stores) & varying
            if not captured:
                continue
            par = A.parent(f)
            consumed_now = isinstance(par, ast.Call) and f in par.args or isinstance(par, ast.keyword)
            if consumed_now:
                continue
            ctx.violation("C14-f", f, "the function `%s` is created inside a loop and reads the loop's `%s` when it is *called*, not when it "
                          "is created: every function built by this loop then uses the value of the last iteration (for a composed getter: "
                          "the last variable's getter applied n-1 times)" % (A.short(f, 60), ", ".join(sorted(captured))),
                          construct="late-binding:%s" % ",".join(sorted(captured)))
    ctx.instances_floor("C14-f/loops", n_loops, 3, "loops of lena/variables/variable.py examined for late-binding closures")
    ctx.ok("C14-f", (VAR, "<module>"), "no closure created in a loop captures a per-iteration name by reference")
    # the composition guard of _update_context: conditions may look at the keys 'type', 'compose' and 'variable' only
    uc = ctx.tree.func(VAR, "Variable._update_context")
    ALLOWED_KEYS = {"type", "compose", "variable"}

    def foreign_keys(node):
        out = set()
        for x in ast.walk(node):
            if isinstance(x, ast.Subscript) and isinstance(x.slice, ast.Constant) and isinstance(x.slice.value, str) \
                    and x.slice.value not in ALLOWED_KEYS:
                out.add(x.slice.value)
            elif isinstance(x, ast.Call) and isinstance(x.func, ast.Attribute) and x.func.attr in ("get", "pop") and x.args \
                    and isinstance(x.args[0], ast.Constant) and isinstance(x.args[0].value, str) and x.args[0].value not in ALLOWED_KEYS:
                out.add(x.args[0].value)
            elif isinstance(x, ast.Compare) and len(x.ops) == 1 and isinstance(x.ops[0], (ast.In, ast.NotIn)) \
                    and isinstance(x.left, ast.Constant) and isinstance(x.left.value, str) and x.left.value not in ALLOWED_KEYS:
                out.add(x.left.value)
        return out
    tainted = {}
    for _ in range(4):
        for st in A.walk_local(uc):
            if isinstance(st, ast.Assign) and len(st.targets) == 1 and isinstance(st.targets[0], ast.Name):
                fk = foreign_keys(st.value)
                for x in ast.walk(st.value):
                    if isinstance(x, ast.Name) and x.id in tainted:
                        fk |= tainted[x.id]
                if fk:
                    tainted[st.targets[0].id] = fk
    n = 0
    for t in A.walk_local(uc):
        test = None
        if isinstance(t, (ast.If, ast.While, ast.IfExp, ast.Assert)):
            test = t.test
        if test is None:
            continue
        n += 1
        fk = foreign_keys(test)
        for x in ast.walk(test):
            if isinstance(x, ast.Name) and x.id in tainted:
                fk |= tainted[x.id]
        ctx.check("C14-f", not fk, test, "_update_context branches on the key(s) %s of the variable contexts (`%s`): whether and how two "
                  "variables compose must depend on the presence of their types only -- e.g. two variables of different types that "
                  "share a name would no longer be composed" % (sorted(fk), A.short(test, 60)),
                  detail="_update_context: condition reads only type/compose/variable", construct="compose-guard-key:%s" % ",".join(sorted(fk)))
    ctx.instances_floor("C14-f/guard", n, 5, "conditions of _update_context")


def check_compose_kinds(ctx):
    """context.variable.compose is a list of type names.  list.extend iterates its argument: given the applied variable's
    `type` (a string) it adds the characters of the name; the variable's own `compose` list is what has to be added when a
    composed variable is applied after others."""
    uc = ctx.tree.func(VAR, "Variable._update_context")
    vc = A.func_params(uc)[1]
    str_locals, list_locals = set(), set()
    for st in A.walk_local(uc):
        if isinstance(st, ast.Assign) and len(st.targets) == 1 and isinstance(st.targets[0], ast.Name):
            v = st.value
            if isinstance(v, ast.Subscript) and A.const(v.slice) == "type":
                str_locals.add(st.targets[0].id)
            elif isinstance(v, ast.Subscript) and A.const(v.slice) == "compose":
                list_locals.add(st.targets[0].id)
    n = 0
    for c in A.walk_local(uc):
        if not (isinstance(c, ast.Call) and isinstance(c.func, ast.Attribute) and c.func.attr in ("extend", "append") and len(c.args) == 1):
            continue
        recv = c.func.value
        if not ((isinstance(recv, ast.Subscript) and A.const(recv.slice) == "compose") or (isinstance(recv, ast.Name) and recv.id in list_locals)):
            continue
        n += 1
        a = c.args[0]
        is_type = (isinstance(a, ast.Subscript) and A.const(a.slice) == "type") or (isinstance(a, ast.Name) and a.id in str_locals)
        is_list = (isinstance(a, ast.Subscript) and A.const(a.slice) == "compose") or (isinstance(a, ast.Name) and a.id in list_locals) \
            or isinstance(a, (ast.List, ast.ListComp))
        if c.func.attr == "extend":
            ctx.check("C14-g", is_list and not is_type, c, "_update_context extends the list of composed types with `%s`%s: extend() iterates "
                      "its argument, so a type name is added character by character (Sequence(v0, Compose(v1, v2)) lists ['T0', 'T', '2'] "
                      "instead of ['T0', 'T1', 'T2'])" % (A.src(a), " -- a type name, not a list" if is_type else ""),
                      detail="compose.extend(<list of types>)", construct="compose-extend:%s" % ("type" if is_type else "other"))
        else:
            ctx.check("C14-g", is_type and not is_list, c, "_update_context appends `%s` to the list of composed types: a single type name is "
                      "expected there" % A.src(a), detail="compose.append(<type name>)", construct="compose-append")
    ctx.instances_floor("C14-g", n, 2, "growth sites of the compose list in _update_context")


def check_pure_getters(ctx):
    """Combine/Compose/Variable build their getters once, in __init__, and apply them to every value of the flow.  A getter is
    documented as a function of the value: a list or dictionary of the creating call that the getter fills is a memo keyed by
    history -- the same (mutable) event object read twice after an in-place change gives the first answer."""
    mod = ctx.tree.module(VAR)
    n = n_inner = 0
    for m, fn in ctx.tree.functions():
        if m is not mod or A.enclosing_func(fn) is not None:
            continue
        n += 1
        n_inner += sum(1 for x in ast.walk(fn) if isinstance(x, (ast.Lambda, ast.FunctionDef)) and x is not fn)
        for inner, name, node, how in K.closure_mutations(fn):
            ctx.violation("C14-h", node, "%s, created in %s, %s -- a variable of the creating call: every application of the function "
                          "shares it, so the result for a value depends on the values seen before (an event object refilled in place "
                          "gets the tuple computed for its previous content)" % (
                              "the lambda" if isinstance(inner, ast.Lambda) else "`%s`" % inner.name, A.qualname(fn), how),
                          construct="getter-state:%s:%s" % (A.qualname(fn), name))
    ctx.instances_floor("C14-h", n_inner, 2, "functions nested in the variables module")
    ctx.ok("C14-h", (VAR, "<module>"), "%d nested functions/lambdas of %d functions change nothing they captured" % (n_inner, n))


def check_attributes_verbatim(ctx):
    """Variable("x", f, offset=0, log=False, unit="") has three attributes.  `update((k, v) for k, v in kwargs.items() if v)` drops all
    of them: they vanish from context.variable, from the copy kept under the type after composition, and var.offset raises."""
    from ..kinds import truth_tests
    n = 0
    for qual in ("Variable.__init__", "Combine.__init__", "Compose.__init__"):
        fn = ctx.tree.func(VAR, qual)
        kw = fn.args.kwarg.arg if fn.args.kwarg is not None else None
        if not ctx.require(kw is not None, "C14-i", fn, "%s takes no **kwargs" % qual):
            continue
        whole = []
        for c in A.walk_local(fn):
            if isinstance(c, ast.Call) and isinstance(c.func, ast.Attribute) and c.func.attr == "update":
                if any(isinstance(a, ast.Name) and a.id == kw for a in c.args) or any(
                        k.arg is None and isinstance(k.value, ast.Name) and k.value.id == kw for k in c.keywords):
                    whole.append(c)
        n += 1
        if whole:
            ctx.ok("C14-i", whole[0], "%s: var_context.update(%s) with all attributes" % (qual, kw))
        else:
            ctx.unknown("C14-i", fn, "%s: the keyword attributes do not reach var_context through update(%s) / update(**%s); how they do "
                        "is not recognised" % (qual, kw, kw))
        # nothing selects among the attributes by value
        for x in A.walk_local(fn):
            gens = []
            if isinstance(x, (ast.ListComp, ast.SetComp, ast.DictComp, ast.GeneratorExp)):
                gens = [(g, g.ifs) for g in x.generators if kw in A.names_loaded(g.iter)]
            elif isinstance(x, ast.For) and kw in A.names_loaded(x.iter):
                tests = [t.test for t in A.walk_body(x.body) if isinstance(t, (ast.If, ast.IfExp))]
                gens = [(x, tests)] if tests else []
            for g, tests in gens:
                tv = A.target_names(g.target)
                valvars = set(tv[1:]) if len(tv) > 1 else set()
                for t in tests:
                    reads_val = A.names_loaded(t) & valvars or any(
                        isinstance(s_, ast.Subscript) and A.root_name(s_) == kw for s_ in ast.walk(t))
                    if reads_val:
                        ctx.violation("C14-i", t, "%s selects among its keyword attributes by their value (`%s`): an attribute whose value "
                                      "is 0, False, '', () or None is dropped -- it is missing from context.variable, from the copy kept "
                                      "under the variable's type after composition, and reading it from the variable raises "
                                      "LenaAttributeError" % (qual, A.short(t, 40)), construct="kwargs-filtered:%s" % qual)
    ctx.instances_floor("C14-i", n, 3, "constructors with keyword attributes")


PATH_HELPERS = {"lena.context.functions.update_recursively": 1, "lena.context.functions.get_recursively": 1,
                "lena.context.functions.str_to_dict": 0, "lena.context.functions.contains": 1,
                "lena.context.functions.str_to_list": 0}


def check_type_keys_literal(ctx):
    """C14-j.  The attributes of a composed variable stay available under its type: var_context[type].  _update_context
    finds them there by subscription.  update_recursively(d, "particle.lepton", v) / str_to_dict would store them under
    d["particle"]["lepton"] instead -- for a type that contains a dot the key the rest of the module reads is never made.
    In lena.variables.variable the path argument of these helpers may only be a string constant."""
    n = 0
    bad = 0
    for mod, fn in ctx.tree.functions():
        if mod.name != "lena.variables.variable":
            continue
        for c in A.walk_local(fn):
            if not isinstance(c, ast.Call):
                continue
            canon = ctx.res.call_canon(c)
            if canon not in PATH_HELPERS:
                continue
            i = PATH_HELPERS[canon]
            if canon.endswith("update_recursively") and len(c.args) + len(c.keywords) < 3:
                continue      # update_recursively(d, other): a dictionary merge, no path involved
            n += 1
            if i < len(c.args) and not (isinstance(c.args[i], ast.Constant) and isinstance(c.args[i].value, str)):
                bad += 1
                ctx.violation("C14-j", c, "%s addresses a variable context with `%s`: `%s` is a user string (a type or a name) and the "
                              "helper reads dots in it as nesting, so for a type like 'particle.lepton' the sub-context is stored under "
                              "['particle']['lepton'] while _update_context looks for the key 'particle.lepton' -- the attributes of "
                              "that variable are lost when it is composed" % (A.qualname(fn), A.short(c, 60), A.src(c.args[i])),
                              construct="type-as-path:%s" % A.qualname(fn))
    subs = sum(1 for mod, fn in ctx.tree.functions() if mod.name == "lena.variables.variable" for x in A.walk_local(fn)
               if isinstance(x, ast.Subscript))
    ctx.instances_floor("C14-j", subs, 10, "subscriptions in lena.variables.variable (the plain-key addressing the rule protects)")
    if not bad:
        ctx.ok("C14-j", ("lena.variables.variable", "<module>"), "%d calls of dotted-path helpers, none with a user string as path" % n)


def check(ctx):
    check_type_keys_literal(ctx)
    check_attributes_verbatim(ctx)
    check_pure_getters(ctx)
    ctx.instances_floor("C14-e/isinstance", K.check_isinstance_dispatch(ctx, "C14-e", ["lena.flow.functions", "lena.variables.variable", "lena.context.functions", "lena.context.context"], "lena.context.Context, OrderedDict as a context; a subclass of Variable"), 10, "isinstance tests in the value and variable helpers")
    check_compose_kinds(ctx)
    check_closures_and_guard(ctx)
    check_value_split(ctx)
    check_black_box(ctx)
    check_fold(ctx)
    check_fresh(ctx)
    check_locality(ctx)
    check_constructors(ctx)


VARIANTS = [
    M("type-subcontext-by-path", "lena/variables/variable.py", "            varc.update(\n                {type: deepcopy(varc)}\n            )", "            lena.context.update_recursively(varc, type, deepcopy(varc))", ["C14-j"]),
    M("variable-drops-falsy-attributes", "lena/variables/variable.py", "        self.var_context.update(**kwargs)\n", "        self.var_context.update(\n            (key, val) for key, val in kwargs.items() if val\n        )\n", ["C14-i"]),
    M("combine-drops-none-attributes", "lena/variables/variable.py", "        var_context.update(kwargs)\n        assert \"dim\" not in kwargs", "        for key in kwargs:\n            if kwargs[key] is not None:\n                var_context[key] = kwargs[key]\n        assert \"dim\" not in kwargs", ["C14-i"]),
    M("combine-getter-memo", "lena/variables/variable.py", "        getter = lambda val: tuple(var.getter(val) for var in self._vars)\n",
      "        last = []\n        def getter(val):\n            if last and last[0] is val:\n                return last[1]\n            res = tuple(var.getter(val) for var in self._vars)\n            last[:] = (val, res)\n            return res\n", ["C14-h"]),
    M("combine-getter-memo-dict", "lena/variables/variable.py", "        getter = lambda val: tuple(var.getter(val) for var in self._vars)\n",
      "        seen = {}\n        getter = lambda val: seen.setdefault(id(val), tuple(var.getter(val) for var in self._vars))\n", ["C14-h"]),
    M("compose-extended-with-type-name", "lena/variables/variable.py", "                cvar[\"compose\"].extend(var_context[\"compose\"])", "                cvar[\"compose\"].extend(cur_type)", ["C14-g"]),
    M("compose-late-binding", "lena/variables/variable.py", "        def getter(value):\n            for var in self._vars:\n                value = var.getter(value)\n            return value\n", "        getter = args[0].getter\n        for var in args[1:]:\n            getter = lambda value, inner=getter: var.getter(inner(value))\n", ["C14-f"]),
    M("compose-skipped-for-same-name", "lena/variables/variable.py", "        if cvar and (\"type\" in cvar):", "        same_var = bool(cvar) and cvar.get(\"name\") == var_context.get(\"name\")\n        if cvar and (\"type\" in cvar) and not same_var:", ["C14-f"]),
    M("split-exact-types", "lena/flow/functions.py", "    if _has_context(value):\n        return (value[0], value[1])\n    else:\n        return (value, {})", "    if (type(value) is tuple and len(value) == 2\n            and type(value[1]) is dict):\n        return (value[0], value[1])\n    return (value, {})", ["C14-e"]),
    M("has-context-exact-dict", "lena/flow/functions.py", "            if isinstance(value[1], dict):\n                return True", "            if type(value[1]) is dict:\n                return True", ["C14-e"]),
    M("get-context-swapped", "lena/flow/functions.py", "    if _has_context(value):\n        return value[1]\n    else:\n        return {}", "    if _has_context(value):\n        return value[0]\n    else:\n        return {}", ["C14-e"]),
    M("compose-reversed", "lena/variables/variable.py", "            for var in self._vars:\n                value = var.getter(value)",
      "            for var in reversed(self._vars):\n                value = var.getter(value)", ["C14-a"]),
    M("compose-context-skip", "lena/variables/variable.py", "for var in self._vars[1:]:", "for var in self._vars[2:]:", ["C14-a"]),
    M("call-no-copy", "lena/variables/variable.py", "self._update_context(context, copy.deepcopy(self.var_context))",
      "self._update_context(context, self.var_context)", ["C14-b"]),
    M("compose-no-copy", "lena/variables/variable.py", "varc = copy.deepcopy(var.var_context)", "varc = var.var_context", ["C14-b"]),
    M("combine-no-copy", "lena/variables/variable.py", "copy.deepcopy(var.var_context) for var in self._vars",
      "var.var_context for var in self._vars", ["C14-b"]),
    M("splitintobins-no-copy", "lena/structures/split_into_bins.py", "copy.deepcopy(self._arg_var.var_context))",
      "self._arg_var.var_context)", ["C14-b"]),
    M("update-context-foreign-key", "lena/variables/variable.py", "        context[\"variable\"] = var_context\n",
      "        context[\"variable\"] = var_context\n        context[\"last_variable\"] = var_context.get(\"name\")\n", ["C14-c"]),
    M("call-caches", "lena/variables/variable.py", "        data = self.getter(data)\n",
      "        data = self.getter(data)\n        self.var_context[\"last\"] = data\n", ["C14-b"]),
    M("getter-typeerror", "lena/variables/variable.py", "        if not callable(getter):\n            raise lena.core.LenaTypeError(",
      "        if not callable(getter):\n            raise lena.core.LenaValueError(", ["C14-d"]),
    M("carry-over-last-two", "lena/variables/variable.py", "for type_ in composed:", "for type_ in composed[-2:]:", ["C14-c"]),
    TW("carry-over-reversed", "lena/variables/variable.py", "for type_ in composed:", "for type_ in reversed(composed):"),
    TW("local-copy-alias", "lena/variables/variable.py", "        self._update_context(context, copy.deepcopy(self.var_context))",
       "        vc = copy.deepcopy(self.var_context)\n        self._update_context(context, vc)"),
]
