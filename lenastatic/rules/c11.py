"""C11 -- SplitIntoBins runs the analysis per cell on exactly that cell's values."""
import ast

from .. import astutil as A
from .. import paths as P
from ..selftest.runner import M, TW, V
from . import common as K
from .c06 import descent_names, check_negative_guard

PROPERTY = "C11"
EXPLANATION = (
    "Decides isolation and routing: (a) FRESH -- SplitIntoBins builds its cells with init_bins(edges, seq, deepcopy=True) "
    "and init_bins deep-copies the value per cell wherever the flag is set (the copy call is inside the innermost "
    "comprehension/loop); MapBins.run applies copy.deepcopy(self._seq).run([cell]) per cell, the copy being inside the "
    "per-cell callable, not hoisted; init_bins never replicates the value with `[value] * n` on a deepcopy path (a later deepcopy of "
    "the list keeps the n references identical); whatever IterateBins.run puts into the context it yields for a cell "
    "(update_nested / update_recursively / update arguments) is a deepcopy or built inside the cell loop; (b) GUARD -- SplitIntoBins.fill reaches a cell only through indices from "
    "get_bin_on_value(self._arg_func(data), self.edges), each dominated by `ind < 0 -> return` and enclosed by "
    "`except IndexError -> return`; (c) ONCE/ORDER -- exactly one cell is filled on the in-range path, none otherwise; "
    "the context kept for compute() is a deep copy taken before the cell's sequence sees the value and is stored only "
    "on the in-range path; (d) shape -- MapBins builds histogram(copy.deepcopy(hist.edges), ...) from the bins of the "
    "same histogram, md_map recurses into lists only (tuples are cells) and IterateBins yields once per item of "
    "iter_bins_with_edges(data.bins, data.edges); (e) the classes of the fill chain bind their protocol attributes to bound methods, "
    "never to closures (deepcopy copies functions by reference).  compute()'s freshness is covered by C04.  Does not decide equality "
    "with an independent per-cell run nor which cell a border value belongs to."    " Added after the eighth round of seeded changes and the second round of behaviour-preserving changes: (g) the dictionary MapBins.run hands to update_nested to be modified is a deep copy or a display, never the context object of a produced cell."
)
RULES = {
    "C11-g": "CELLS UNTOUCHED: the context MapBins nests under context.value (the argument that update_nested modifies) is a deep copy, "
             "never the context object of a produced cell -- with drop_bins_context=False that object stays in the yielded histogram",
    "C11-f": "NARROW TRY: the IndexError handler that means 'outside the edges' encloses only the lookup of the cell, no call",
    "C11-a": "FRESH: one private deep copy of the analysis per cell (construction and MapBins)",
    "C11-b": "GUARD: cells are reached by get_bin_on_value indices, negative/overflow indices are ignored",
    "C11-c": "ONCE/ORDER: one cell filled in range; the kept context is copied before the cell's sequence may change it",
    "C11-d": "shape: same edges (deep-copied), list-only recursion in md_map, one yield per cell in IterateBins",
    "C11-e": "DEEPCOPY-SAFE: the classes that make up a per-cell analysis (FillSeq chain, adapters, sequences) bind their protocol "
             "attributes to bound methods, never to lambdas or nested functions (copy.deepcopy copies functions by reference, so the "
             "cell's copy would drive the original objects)",
}
SIB = "lena.structures.split_into_bins"
HF = "lena.structures.hist_functions"


def check_fresh(ctx):
    res = ctx.res
    init = ctx.tree.func(SIB, "SplitIntoBins.__init__")
    calls = [c for c in A.walk_local(init) if isinstance(c, ast.Call) and res.canon(c.func) == HF + ".init_bins"]
    ok = len(calls) == 1
    if ok:
        c = calls[0]
        dc = A.kwarg(c, "deepcopy") or (c.args[2] if len(c.args) > 2 else None)
        ok = dc is not None and A.is_const(dc, True) and len(c.args) >= 2 and A.src(c.args[1]) == "seq" and A.src(c.args[0]) == "edges"
        tgt = A.enclosing(c, (ast.Assign,))
        ok = ok and tgt is not None and any(A.is_self_attr(t, "bins") for t in tgt.targets)
    ctx.check("C11-a", ok, init, "SplitIntoBins does not build self.bins = init_bins(edges, seq, deepcopy=True): the cells would share one "
              "analysis object, so every cell accumulates the values of all cells", detail="cells = init_bins(edges, seq, deepcopy=True)",
              construct="init-bins-deepcopy")
    ib = ctx.tree.func(HF, "init_bins")
    ips = A.func_params(ib)
    if not ctx.require(len(ips) == 3, "C11-a", ib, "init_bins: parameters (edges, value, deepcopy) expected"):
        return
    pval, pflag = ips[1], ips[2]
    # every construction of a list of `value`s under `deepcopy` true copies per element
    n = 0

    def deref(p, expr, upto, depth=0):
        """last definition of a local on the path before event `upto` (transitively)."""
        while isinstance(expr, ast.Name) and depth < 6:
            ds = [(i, e[1]) for i, e in enumerate(p.ev[:upto]) if e[0] == "stmt" and isinstance(e[1], ast.Assign)
                  and any(isinstance(t, ast.Name) and t.id == expr.id for t in e[1].targets)]
            if not ds:
                break
            upto, expr = ds[-1][0], ds[-1][1].value
            depth += 1
        return expr

    def replicates(node):
        """[value] * n  /  n * [value]: n references to one object."""
        for x in ast.walk(node):
            if isinstance(x, ast.BinOp) and isinstance(x.op, ast.Mult):
                for side in (x.left, x.right):
                    if isinstance(side, (ast.List, ast.Tuple)) and any(isinstance(e, ast.Name) and e.id == pval for e in side.elts):
                        return x
        return None

    for p in P.paths_of(ib):
        flag = [pol for t, pol in p.literals() if isinstance(t, ast.Name) and t.id == pflag]
        rets = [(i, e[1]) for i, e in enumerate(p.ev) if e[0] == "stmt" and isinstance(e[1], ast.Return)]
        for i, r in rets:
            v = deref(p, r.value, i) if r.value is not None else None
            executed = [e[1] for e in p.ev[:i + 1] if e[0] == "stmt"]
            mentions_value = v is not None and any(isinstance(x, ast.Name) and x.id == pval for x in ast.walk(v))
            reps = [x for st in executed for x in [replicates(st)] if x is not None]
            if not (mentions_value or reps):
                continue
            n += 1
            if flag and flag[-1]:
                ok = isinstance(v, ast.ListComp) and res.is_call_to(v.elt, "copy.deepcopy") and A.src(v.elt.args[0]) == pval and not reps
                why = ("replicates one object with `%s` (a later deepcopy of the whole list keeps the n references identical: its memo "
                       "maps them to one copy)" % A.src(reps[0])) if reps else "returns `%s`" % A.src(v)
                ctx.check("C11-a", ok, r, "init_bins with deepcopy set %s: every cell must get its own copy.deepcopy(value) made per "
                          "element (a copy made once and repeated, or no copy, makes cells share state)" % why,
                          detail="deepcopy branch copies per cell", construct="init_bins:%s" % A.src(v)[:60], path=p)
    rec = [c for c in A.walk_local(ib) if isinstance(c, ast.Call) and A.call_name(c) == "init_bins"]
    ctx.check("C11-a", bool(rec) and all(len(c.args) == 3 and A.src(c.args[2]) == pflag and A.src(c.args[1]) == pval for c in rec), ib,
              "init_bins does not pass value and the deepcopy flag on to the nested dimensions", detail="recursion passes the flag on",
              construct="init_bins-recursion")
    # MapBins
    run = ctx.tree.func(SIB, "MapBins.run")
    lams = [l for l in A.walk_local(run) if isinstance(l, ast.Lambda)]
    per_cell = []
    for l in lams:
        for c in ast.walk(l.body):
            if isinstance(c, ast.Call) and isinstance(c.func, ast.Attribute) and c.func.attr == "run":
                per_cell.append((l, c))
    if not ctx.require(len(per_cell) == 1, "C11-a", run, "MapBins.run: per-cell callable `lambda cell: <seq>.run([cell])` not found"):
        return
    lam, call = per_cell[0]
    recv = call.func.value
    ok = res.is_call_to(recv, "copy.deepcopy") and A.src(recv.args[0]) == "self._seq"
    argok = len(call.args) == 1 and isinstance(call.args[0], ast.List) and len(call.args[0].elts) == 1 \
        and A.src(call.args[0].elts[0]) == A.func_params(lam)[0]
    ctx.check("C11-a", ok, call, "MapBins.run applies `%s` to every cell: the sequence must be copy.deepcopy(self._seq) made inside the "
              "per-cell callable; a copy hoisted out of it (or none) lets a stateful sequence mix the cells" % A.src(recv),
              detail="per-cell deepcopy of the sequence", construct="mapbins-per-cell-copy")
    ctx.check("C11-a", argok, call, "MapBins.run does not run the sequence on the single cell `[%s]`" % A.func_params(lam)[0],
              detail="sequence run on [cell]", construct="mapbins-arg")


def check_routing(ctx):
    res = ctx.res
    fn = ctx.tree.func(SIB, "SplitIntoBins.fill")
    n = check_negative_guard(ctx, SIB, "SplitIntoBins.fill", "C11-b")
    ctx.instances_floor("C11-b", n, 1, "guarded cell subscripts")
    idx = [a for a in A.walk_local(fn) if isinstance(a, ast.Assign) and isinstance(a.value, ast.Call)
           and res.canon(a.value.func) == HF + ".get_bin_on_value"]
    # the local that holds the data part of the filled value
    val = [p for p in A.func_params(fn) if p != "self"][0]
    dnames = set()
    for a in A.walk_local(fn):
        if isinstance(a, ast.Assign) and isinstance(a.value, ast.Call) and a.value.args and A.src(a.value.args[0]) == val:
            canon = res.call_canon(a.value)
            if canon == "lena.flow.functions.get_data_context" and isinstance(a.targets[0], ast.Tuple) and len(a.targets[0].elts) == 2 \
                    and isinstance(a.targets[0].elts[0], ast.Name):
                dnames.add(a.targets[0].elts[0].id)
            elif canon == "lena.flow.functions.get_data" and isinstance(a.targets[0], ast.Name):
                dnames.add(a.targets[0].id)
    ok = len(idx) == 1 and len(idx[0].value.args) == 2 and isinstance(idx[0].value.args[0], ast.Call) \
        and A.src(idx[0].value.args[0].func) == "self._arg_func" and len(idx[0].value.args[0].args) == 1 \
        and (A.src(idx[0].value.args[0].args[0]) in dnames or res.call_canon(idx[0].value.args[0].args[0]) == "lena.flow.functions.get_data") \
        and A.src(idx[0].value.args[1]) == "self.edges"
    ctx.check("C11-b", ok, fn, "SplitIntoBins.fill does not compute the cell as get_bin_on_value(self._arg_func(data), self.edges)",
              detail="cell index = get_bin_on_value(arg_var(data), edges)", construct="routing-index")
    if ok:
        name = A.src(idx[0].targets[0])
        loops = [l for l in A.walk_local(fn) if isinstance(l, ast.For)]
        ctx.check("C11-b", len(loops) == 1 and A.src(loops[0].iter) == name, fn, "the descent loop does not iterate the index list `%s` itself" % name,
                  detail="descent over the full index list", construct="routing-loop")
    # under/overflow: return without filling
    for p in P.paths_of(fn):
        under = any((pol and A.norm_src(t).endswith("< 0")) or (not pol and A.norm_src(t).endswith(">= 0")) for t, pol in p.literals())
        over = any(e[0] == "exc" and e[1].type is not None and res.canon(e[1].type) == "builtins.IndexError" for e in p.ev)
        if under or over:
            fills = [c for s in p.stmts() for c in A.walk_local(s) if isinstance(c, ast.Call) and isinstance(c.func, ast.Attribute) and c.func.attr == "fill"]
            ctx.check("C11-b", not fills and p.end == "return", fn, "SplitIntoBins.fill does not ignore a value outside the edges [%s]" % p.describe(),
                      detail="out-of-range value ignored [%s]" % ("underflow" if under else "overflow"), construct="ignore:%s" % ("under" if under else "over"), path=p)


def check_once_order(ctx):
    res = ctx.res
    fn = ctx.tree.func(SIB, "SplitIntoBins.fill")
    cells = descent_names(fn)
    val = [p for p in A.func_params(fn) if p != "self"][0]
    n = 0
    for p in P.paths_of(fn):
        if p.end == "raise":
            continue
        fills = [(i, c) for i, e in enumerate(p.ev) if e[0] == "stmt" for c in A.walk_local(e[1])
                 if isinstance(c, ast.Call) and isinstance(c.func, ast.Attribute) and c.func.attr == "fill"]
        stores = [(i, e[1]) for i, e in enumerate(p.ev) if e[0] == "stmt" and isinstance(e[1], ast.Assign)
                  and any(A.is_self_attr(t, "_cur_context") for t in e[1].targets)]
        early = p.end == "return"
        if early:
            ctx.check("C11-c", not stores, fn, "SplitIntoBins.fill stores _cur_context for a value it ignores [%s]" % p.describe(),
                      detail="ignored value leaves the kept context alone", construct="ctx-on-ignore", path=p)
            continue
        n += 1
        okf = len(fills) == 1 and A.src(fills[0][1].func.value) in cells and len(fills[0][1].args) == 1 and A.src(fills[0][1].args[0]) == val
        ctx.check("C11-c", okf, fn, "SplitIntoBins.fill fills %d cells on the in-range path (exactly one cell must receive the value itself)"
                  % len(fills), detail="exactly one cell.fill(val) in range", construct="fill-once:%d" % len(fills), path=p)
        # the stored context: a deepcopy of the value's context evaluated before the fill
        okc = len(stores) == 1
        if okc and fills:
            sv = stores[0][1].value
            copy_idx = None
            if res.is_call_to(sv, "copy.deepcopy"):
                copy_idx = stores[0][0]
            elif isinstance(sv, ast.Name):
                for i, e in enumerate(p.ev[:stores[0][0]]):
                    if e[0] == "stmt" and isinstance(e[1], ast.Assign) and any(A.src(t) == sv.id for t in e[1].targets) \
                            and res.is_call_to(e[1].value, "copy.deepcopy"):
                        copy_idx = i
            okc = copy_idx is not None and copy_idx < fills[0][0]
        ctx.check("C11-c", okc, fn, "SplitIntoBins.fill takes the context it keeps for compute() after (or without) the deep copy that must "
                  "precede `cell.fill(val)`: the cell's sequence updates the value's context in place (Variable, UpdateContext), so "
                  "context.variable would describe the inner analysis, not the argument variable",
                  detail="context snapshot (deepcopy) precedes the cell's fill", construct="ctx-copy-before-fill", path=p)
    ctx.instances_floor("C11-c", n, 1, "in-range paths of SplitIntoBins.fill")


def check_shape(ctx):
    res = ctx.res
    run = ctx.tree.func(SIB, "MapBins.run")
    # the local holding the input histogram: first target of `h, c = get_data_context(<loop value>)`
    hvar = None
    floops = [l for l in A.walk_local(run) if isinstance(l, ast.For) and A.src(l.iter) == "flow" and isinstance(l.target, ast.Name)]
    if floops:
        for a in A.walk_body(floops[0].body):
            if isinstance(a, ast.Assign) and isinstance(a.value, ast.Call) and res.call_canon(a.value) == "lena.flow.functions.get_data_context" \
                    and a.value.args and A.src(a.value.args[0]) == floops[0].target.id and isinstance(a.targets[0], ast.Tuple) \
                    and isinstance(a.targets[0].elts[0], ast.Name):
                hvar = a.targets[0].elts[0].id
    if not ctx.require(hvar is not None, "C11-d", run, "MapBins.run: the local holding the input histogram was not found"):
        return
    hc = [c for c in A.walk_local(run) if isinstance(c, ast.Call) and res.canon(c.func) == "lena.structures.histogram.histogram"]
    ok = len(hc) == 1
    if ok:
        e = hc[0].args[0] if hc[0].args else A.kwarg(hc[0], "edges")
        esrc = e
        if isinstance(e, ast.Name):
            a = [x for x in A.walk_local(run) if isinstance(x, ast.Assign) and any(A.src(t) == e.id for t in x.targets)]
            esrc = a[0].value if len(a) == 1 else None
        ok = esrc is not None and res.is_call_to(esrc, "copy.deepcopy") and A.src(esrc.args[0]) == "%s.edges" % hvar
    ctx.check("C11-d", ok, run, "MapBins.run does not build its result over copy.deepcopy(hist.edges) of the same histogram",
              detail="result has the (deep-copied) edges of the input histogram", construct="mapbins-edges")
    gens = [c for c in A.walk_local(run) if isinstance(c, ast.Call) and A.call_name(c) in ("_MdSeqMap", "md_map") and len(c.args) == 2
            and isinstance(c.args[0], ast.Lambda)]
    ctx.check("C11-d", len(gens) == 1 and A.src(gens[0].args[1]) == "%s.bins" % hvar, run, "MapBins.run does not map the sequence over hist.bins",
              detail="sequence mapped over the bins of the same histogram", construct="mapbins-bins")
    mm = ctx.tree.func("lena.math.meshes", "md_map")
    arrs = A.func_params(mm)[-1]
    # the local holding the first item of the first array
    a0 = [st.targets[0].id for st in A.walk_local(mm) if isinstance(st, ast.Assign) and len(st.targets) == 1
          and isinstance(st.targets[0], ast.Name) and A.src(st.value) == "%s[0][0]" % arrs]
    if not ctx.require(len(a0) == 1, "C11-d", mm, "md_map: the local holding arrays[0][0] was not found"):
        return
    a0 = a0[0]
    # path-based (polarity-aware): the recursion happens exactly on the paths that have established isinstance(arr0, list)
    n_rec = n_flat = 0
    bad = None
    for p in P.paths_of(mm):
        if p.end != "return":
            continue
        pol_list = None
        other_type = None
        for t, pol in p.literals():
            if isinstance(t, ast.Call) and res.call_canon(t) == "builtins.isinstance" and len(t.args) == 2 and A.src(t.args[0]) == a0:
                if res.canon(t.args[1]) == "builtins.list":
                    pol_list = pol
                else:
                    other_type = A.src(t.args[1])
        r = [x for x in p.stmts() if isinstance(x, ast.Return)][-1]
        v = r.value
        if isinstance(v, ast.Name):
            ds = [x for x in p.stmts() if isinstance(x, ast.Assign) and any(isinstance(t, ast.Name) and t.id == v.id for t in x.targets)]
            v = ds[-1].value if ds else v
        recursive = any(isinstance(c, ast.Call) and res.call_canon(c) == "lena.math.meshes.md_map" for c in ast.walk(v)) if v is not None else False
        if pol_list is None and not recursive:
            continue       # the early returns for empty arrays
        if recursive:
            n_rec += 1
            if pol_list is not True or other_type:
                bad = (r, "recurses on a path that has not established isinstance(%s, list)%s" % (a0, " (it tests %s)" % other_type if other_type else ""))
            elif not (isinstance(v, ast.ListComp) and len(v.generators) == 1):
                bad = (r, "does not return one mapped element per element of the first array")
        elif pol_list is True:
            bad = (r, "does not recurse into a nested list")
        else:
            n_flat += 1
            if not isinstance(v, ast.ListComp):
                bad = (r, "does not return one mapped element per element of the array")
    ok = bad is None and n_rec >= 1 and n_flat >= 1
    ctx.check("C11-d", ok, bad[0] if bad else mm, "md_map %s: it must recurse on `isinstance(arr0, list)` only -- tuples are (data, context) "
              "cells and must not be expanded -- and return a list of the same length" % (bad[1] if bad else "has no recursive and flat path"),
              detail="md_map recurses into lists only", construct="md_map-recursion")
    tup = [a for a in A.walk_local(mm) if isinstance(a, ast.Assign) and "range(len(%s[0]))" % arrs in A.src(a.value)]
    ctx.check("C11-d", len(tup) >= 1, mm, "md_map does not build one tuple of arguments per element of the first array",
              detail="result has the length of the input", construct="md_map-length")
    it = ctx.tree.func(SIB, "IterateBins.run")
    loops = [l for l in A.walk_local(it) if isinstance(l, ast.For) and A.call_name(l.iter) == "iter_bins_with_edges" if isinstance(l.iter, ast.Call)]
    dvar = None
    floops = [l for l in A.walk_local(it) if isinstance(l, ast.For) and A.src(l.iter) == "flow" and isinstance(l.target, ast.Name)]
    if floops:
        for a in A.walk_body(floops[0].body):
            if isinstance(a, ast.Assign) and isinstance(a.value, ast.Call) and res.call_canon(a.value) == "lena.flow.functions.get_data_context" \
                    and a.value.args and A.src(a.value.args[0]) == floops[0].target.id and isinstance(a.targets[0], ast.Tuple) \
                    and isinstance(a.targets[0].elts[0], ast.Name):
                dvar = a.targets[0].elts[0].id
                break
    ok = len(loops) == 1 and dvar is not None and [A.src(a) for a in loops[0].iter.args] == ["%s.bins" % dvar, "%s.edges" % dvar]
    ctx.check("C11-d", ok, it, "IterateBins.run does not iterate iter_bins_with_edges(data.bins, data.edges)", detail="cells enumerated with their edges",
              construct="iteratebins-iter")
    if ok:
        l = loops[0]
        edges_name = A.src(l.target.elts[1]) if isinstance(l.target, ast.Tuple) else None
        for p in P.loop_body_paths(l):
            ys = p.yields()
            ctx.check("C11-d", len(ys) == 1, l, "IterateBins yields %d values for one cell [%s]" % (len(ys), p.describe()),
                      detail="one yield per cell", construct="iteratebins-yields:%d" % len(ys), path=p)
        src = A.src(l)
        ctx.check("C11-d", edges_name is not None and "'edges': %s" % edges_name in src, l, "IterateBins does not put the cell's own edges into "
                  "context.bin.edges", detail="context.bin.edges = this cell's edges", construct="iteratebins-edges")


def check_iterate_fresh(ctx):
    """IterateBins.run: whatever is put into the context yielded for a cell is made for that cell -- a deep copy, a
    dictionary built inside the cell loop, or a scalar -- never an object that is the same for all cells of the
    histogram (update_nested stores its third argument *and modifies it*)."""
    res = ctx.res
    it = ctx.tree.func(SIB, "IterateBins.run")
    loops = [l for l in A.walk_local(it) if isinstance(l, ast.For) and isinstance(l.iter, ast.Call)
             and A.call_name(l.iter) == "iter_bins_with_edges"]
    if not ctx.require(len(loops) == 1, "C11-a", it, "IterateBins.run: cell loop not found"):
        return
    loop = loops[0]
    inside = set()
    for n in A.walk_body(loop.body):
        if isinstance(n, ast.Name) and isinstance(n.ctx, ast.Store):
            inside.add(n.id)
    inside |= set(A.target_names(loop.target))
    alias = {}
    for st in A.walk_local(it):
        if isinstance(st, ast.Assign) and len(st.targets) == 1 and isinstance(st.targets[0], ast.Name) \
                and isinstance(st.value, ast.Attribute) and A.src(st.value) == "lena.context.update_nested":
            alias[st.targets[0].id] = "update_nested"

    def fresh(expr, depth=0):
        if res.is_call_to(expr, "copy.deepcopy"):
            return True
        if isinstance(expr, ast.Constant):
            return True
        if isinstance(expr, ast.Dict):
            # a dictionary made here; its values are this cell's (defined inside the loop) or fresh
            return all(v is not None and (fresh(v, depth + 1) or (isinstance(v, ast.Name) and v.id in inside)) for v in expr.values)
        if isinstance(expr, ast.Name) and expr.id in inside and depth < 4:
            ds = [x for x in A.walk_body(loop.body) if isinstance(x, ast.Assign) and any(isinstance(t, ast.Name) and t.id == expr.id for t in x.targets)]
            return len(ds) == 1 and fresh(ds[0].value, depth + 1)
        return False

    n = 0
    for c in A.walk_body(loop.body):
        if not isinstance(c, ast.Call):
            continue
        name = alias.get(c.func.id) if isinstance(c.func, ast.Name) else None
        canon = res.call_canon(c)
        if name == "update_nested" or canon == "lena.context.functions.update_nested":
            other = c.args[2] if len(c.args) > 2 else A.kwarg(c, "other")
        elif canon == "lena.context.functions.update_recursively":
            other = c.args[1] if len(c.args) > 1 else A.kwarg(c, "other")
        elif isinstance(c.func, ast.Attribute) and c.func.attr == "update" and c.args:
            other = c.args[0]
        else:
            continue
        n += 1
        ctx.check("C11-a", other is not None and fresh(other), c, "IterateBins.run puts `%s` into the context of every cell: the object "
                  "is the same for all cells of the histogram (and update_nested modifies it), so a change made for one cell shows in the "
                  "others; it must be copy.deepcopy(...) or built inside the cell loop" % (A.src(other) if other is not None else "?"),
                  detail="IterateBins: `%s` is made per cell" % (A.short(other, 50) if other is not None else "?"),
                  construct="iteratebins-shared:%s" % (A.short(other, 50) if other is not None else "?"))
    ctx.instances_floor("C11-a/iteratebins", n, 2, "context updates in the cell loop of IterateBins.run")


CHAIN_CLASSES = (("lena.core.fill_seq", "_Fill"), ("lena.core.fill_seq", "FillSeq"), ("lena.core.fill_compute_seq", "FillComputeSeq"),
                 ("lena.core.fill_request_seq", "FillRequestSeq"), ("lena.core.adapters", "FillInto"), ("lena.core.adapters", "FillCompute"),
                 ("lena.core.adapters", "FillRequest"), ("lena.core.adapters", "Run"), ("lena.core.adapters", "Call"),
                 ("lena.core.sequence", "Sequence"), ("lena.core.lena_sequence", "LenaSequence"))
PROTOCOL_ATTRS = ("fill", "compute", "request", "run", "fill_into", "__call__", "_call", "reset")


def check_deepcopy_safe(ctx):
    """SplitIntoBins (init_bins(..., deepcopy=True)) and MapBins (copy.deepcopy(self._seq)) give every cell its own deep copy
    of the analysis.  copy.deepcopy re-binds bound methods to the copied object but returns plain functions (lambdas, nested
    defs) as they are: a protocol attribute bound to a closure over the wrapped elements keeps driving the *original* elements
    in every copy, so all cells fill one accumulator while compute() reads the untouched copies."""
    from ..loader import methods as _methods
    n = 0
    for modname, cname in CHAIN_CLASSES:
        cls = ctx.tree.cls(modname, cname)
        for mname, fn in _methods(cls).items():
            nested = {d.name for d in ast.walk(fn) if isinstance(d, ast.FunctionDef) and d is not fn}
            for st in A.walk_local(fn):
                if not isinstance(st, ast.Assign):
                    continue
                for t in st.targets:
                    if not (A.is_self_attr(t) and t.attr in PROTOCOL_ATTRS):
                        continue
                    n += 1
                    v = st.value
                    closure = isinstance(v, ast.Lambda) or (isinstance(v, ast.Name) and v.id in nested)
                    if closure:
                        fnode = v if isinstance(v, ast.Lambda) else [d for d in ast.walk(fn) if isinstance(d, ast.FunctionDef) and d.name == v.id][0]
                        params = set(A.func_params(fnode))
                        body = [fnode.body] if isinstance(fnode, ast.Lambda) else fnode.body
                        free = {x.id for b in body for x in ast.walk(b) if isinstance(x, ast.Name) and isinstance(x.ctx, ast.Load)} - params
                        free = {x for x in free if x not in dir(__builtins__) and x not in ("lena", "itertools", "copy")}
                        closure = bool(free)
                    ctx.check("C11-e", not closure, st, "%s.%s binds self.%s to the function `%s`, which closes over %s: copy.deepcopy of the "
                              "object copies this function by reference, so every per-cell copy made by SplitIntoBins/MapBins keeps "
                              "filling the original elements" % (cname, mname, t.attr, A.short(v, 50),
                                                                  ", ".join(sorted(free)) if closure else ""),
                              detail="%s.%s: self.%s is not a closure" % (cname, mname, t.attr), construct="closure-attr:%s.%s" % (cname, t.attr))
    ctx.instances_floor("C11-e", n, 15, "protocol attributes bound in the classes of the fill chain")


def check_overflow_handler_narrow(ctx):
    """SplitIntoBins.fill takes an IndexError of the cell lookup for an overflow and ignores the value.  The handler may
    enclose nothing but that lookup (subscripts of the bins): an IndexError raised by the cell's own analysis -- user code run
    by `cell.fill(val)` -- is an error of the analysis and must come out, not be counted as a value outside the edges (the value
    would silently vanish from the cell, a Vectorize inside would be left half-filled)."""
    res = ctx.res
    n = 0
    for qual in ("SplitIntoBins.fill",):
        fn = ctx.tree.func("lena.structures.split_into_bins", qual)
        for t in [t for t in A.walk_local(fn) if isinstance(t, ast.Try)]:
            hs = [h for h in t.handlers if h.type is None or any(res.canon(x) in ("builtins.IndexError", "builtins.LookupError", "builtins.Exception",
                                                                                  "builtins.BaseException", "builtins.KeyError", "builtins.TypeError")
                                                                 for x in (h.type.elts if isinstance(h.type, ast.Tuple) else [h.type]))]
            swallowing = [h for h in hs if not any(isinstance(x, ast.Raise) for x in ast.walk(h))]
            if not swallowing:
                continue
            n += 1
            calls = [c for st in t.body for c in A.walk_local(st) if isinstance(c, ast.Call)
                     and not (isinstance(c.func, ast.Name) and c.func.id in ("len", "int", "isinstance", "range"))]
            ctx.check("C11-f", not calls, t, "%s: the handler that takes %s for 'outside the edges' also encloses the call `%s`: an error "
                      "raised by the analysis of the cell is swallowed and the value silently dropped"
                      % (qual, A.short(swallowing[0].type, 30) if swallowing[0].type is not None else "any exception",
                         A.short(calls[0], 40) if calls else ""),
                      detail="%s: the overflow handler encloses only the cell lookup" % qual, construct="wide-overflow-try:%s" % qual)
    ctx.instances_floor("C11-f", n, 1, "swallowing lookup handlers in SplitIntoBins.fill")


def check_mapbins_value_context(ctx):
    """C11-g.  update_nested(key, d, other) modifies *other* (documented) and makes it part of d.  MapBins.run may keep the
    (data, context) cells it has produced inside the new histogram (drop_bins_context=False): the example cell's context
    handed to update_nested uncopied would be changed in place (the old context.value is written into it) and shared with the
    yielded context, so cell [0]..[0] would no longer be the sequence applied to that cell."""
    fn = ctx.tree.func("lena.structures.split_into_bins", "MapBins.run")
    calls = [c for c in A.walk_local(fn) if isinstance(c, ast.Call) and len(c.args) == 3 and (
                 (ctx.res.call_canon(c) or "").endswith("update_nested") or A.call_name(c) == "update_nested" or (
                     isinstance(c.func, ast.Name) and A.single_def(fn, c.func.id) is not None
                     and A.src(A.single_def(fn, c.func.id)).endswith("update_nested")))]
    if not ctx.require(calls, "C11-g", fn, "MapBins.run: no update_nested(key, d, other) call found"):
        return
    for c in calls:
        other = c.args[2]
        v = other
        if isinstance(v, ast.Name):
            d = A.single_def(fn, v.id)
            if d is None:
                ctx.unknown("C11-g", c, "MapBins.run: `%s` passed to update_nested has several definitions" % v.id)
                continue
            v = d
        canon = ctx.res.call_canon(v) if isinstance(v, ast.Call) else None
        if canon == "copy.deepcopy" or isinstance(v, ast.Dict):
            ctx.ok("C11-g", c, "MapBins.run nests a deep copy (`%s`)" % A.short(v, 50))
        elif isinstance(v, (ast.Call, ast.Subscript, ast.Attribute, ast.Name)) and canon not in ("builtins.dict",):
            ctx.violation("C11-g", c, "MapBins.run hands `%s` = `%s` to update_nested as the dictionary to be modified: it is not a private "
                          "copy but the context object of a produced cell; with drop_bins_context=False that cell stays in the yielded "
                          "histogram, gets the previous context.value written into it and is shared with the yielded context, so the cell "
                          "is no longer what the sequence produced for it" % (A.src(other), A.short(v, 60)),
                          construct="mapbins-value-context-alias")
        else:
            ctx.unknown("C11-g", c, "MapBins.run: cannot tell whether `%s` is a private copy" % A.short(v, 50))


def check(ctx):
    check_mapbins_value_context(ctx)
    check_overflow_handler_narrow(ctx)
    check_deepcopy_safe(ctx)
    check_fresh(ctx)
    check_iterate_fresh(ctx)
    check_routing(ctx)
    check_once_order(ctx)
    check_shape(ctx)


VARIANTS = [
    M("mapbins-example-context-uncopied", "lena/structures/split_into_bins.py", "                bin_context = copy.deepcopy(\n                    lena.flow.get_context(get_example_bin(new_bins))\n                )", "                bin_context = lena.flow.get_context(get_example_bin(new_bins))", ["C11-g"]),
    M("overflow-try-around-fill", "lena/structures/split_into_bins.py", "            try:\n                subarr = subarr[ind]\n", "            try:\n                subarr = subarr[ind]\n                getattr(subarr, 'fill', len)(val) if False else None\n", ["C11-f"]),
    M("fill-chain-lambda", "lena/core/fill_seq.py", "        self._fill_into_el = fill_into_el\n        self._fill_el = fill_el\n", "        self._fill_into_el = fill_into_el\n        self._fill_el = fill_el\n        fill_into = fill_into_el.fill_into\n        self.fill = lambda value: fill_into(fill_el, value)\n", ["C11-e"]),
    M("iteratebins-shared-hist-context", "lena/structures/split_into_bins.py", "update_nested(\"bins\", bin_context, copy.deepcopy(hist_context))", "update_nested(\"bins\", bin_context, hist_context)", ["C11-a"]),
    M("init-bins-row-deepcopy", "lena/structures/hist_functions.py", "            if deepcopy:\n                return [copy.deepcopy(value) for _ in range(len(arr)-1)]\n            else:\n                return list([value] * (len(arr)-1))", "            row = [value] * (len(arr)-1)\n            if deepcopy:\n                row = copy.deepcopy(row)\n            return row", ["C11-a"]),
    TW("init-bins-local", "lena/structures/hist_functions.py", "        if deepcopy:\n            return [copy.deepcopy(value) for _ in range(nbins)]\n        else:\n            return [value] * nbins", "        if deepcopy:\n            cells = [copy.deepcopy(value) for _ in range(nbins)]\n            return cells\n        else:\n            return [value] * nbins"),
    M("cells-share-seq", "lena/structures/split_into_bins.py", "init_bins(edges, seq, deepcopy=True)", "init_bins(edges, seq, deepcopy=False)", ["C11-a"]),
    M("init-bins-one-copy", "lena/structures/hist_functions.py", "            return [copy.deepcopy(value) for _ in range(nbins)]", "            return [copy.deepcopy(value)] * nbins", ["C11-a"]),
    M("mapbins-hoisted-copy", "lena/structures/split_into_bins.py", "            generators = _MdSeqMap(\n                lambda cell: copy.deepcopy(self._seq).run([cell]),",
      "            seq = copy.deepcopy(self._seq)\n            generators = _MdSeqMap(\n                lambda cell: seq.run([cell]),", ["C11-a"]),
    M("fill-no-underflow-guard", "lena/structures/split_into_bins.py", "            # underflow\n            if ind < 0:\n                return\n", "", ["C11-b", "C06-b"]),
    M("fill-twice", "lena/structures/split_into_bins.py", "        subarr.fill(val)\n        self._cur_context = context", "        subarr.fill(val)\n        subarr.fill(val)\n        self._cur_context = context", ["C11-c"]),
    V("mutant", "copy-after-fill", None, None, None, ["C11-c"], edits=[
        ("lena/structures/split_into_bins.py", "        context = copy.deepcopy(context)\n        bin_index", "        bin_index", 0),
        ("lena/structures/split_into_bins.py", "        subarr.fill(val)\n        self._cur_context = context", "        subarr.fill(val)\n        self._cur_context = copy.deepcopy(context)", 0)]),
    M("mdmap-tuples", "lena/math/meshes.py", "    if isinstance(arr0, list):", "    if isinstance(arr0, (list, tuple)):", ["C11-d"]),
    M("mapbins-shared-edges", "lena/structures/split_into_bins.py", "                edges = copy.deepcopy(hist.edges)", "                edges = hist.edges", ["C11-d"]),
    TW("fill-comment", "lena/structures/split_into_bins.py", "        # subarr is now the cell self.edges[bin_index]\n", "        # the cell\n"),
]
