"""C19 -- output files match the current data and nothing unchanged is redone (changed-flag discipline)."""
import ast

from .. import astutil as A
from .. import paths as P
from ..loader import methods
from ..selftest.runner import M, TW, V
from . import common as K

PROPERTY = "C19"
EXPLANATION = (
    "Decides the changed-flag discipline on every enumerated path: (a) PAIR -- in Write.run every call of a write "
    "routine (_write_data / data.write) is followed by `output.changed = True` before the value is yielded; "
    "(b) sticky -- every store into output.changed in Write.run assigns True or the value read on entry, and "
    "LaTeXToPDF.run / PDFToPNG.run store the constant False only on paths whose condition contains the falsity of "
    "the incoming flag; group_plots and _update_with_group combine members' flags with any(); (c) GUARD -- a "
    "converter is launched unless the path condition contains exists(<artefact>), not overwrite and not changed, "
    "and both a launching and a skipping path exist; Write rewrites an existing file only under overwrite or "
    "`data != existing_data`; (d) AGREE -- the path written, tested, read, stored in output.filepath and yielded "
    "by Write.run is one variable built by os.path.join(self.output_directory, dirname, filename[.ext]); "
    "(e) MakeFilename stores filename/dirname/fileext only when absent or overwrite is set, and deletes prefix and "
    "suffix after using them; (g) LaTeXToPDF, which follows Write, does not default a missing output.changed to a falsy value: the "
    "missing-flag handler sets the flag to True or to a comparison of the modification times of the .tex and the .pdf.  Does not decide file contents or mtimes over histories."    " Added after the eighth round of seeded changes and the second round of behaviour-preserving changes: (i) no name in lena.output is derived with strip/lstrip/rstrip and a word (several characters with a letter or digit) as argument."
)
RULES = {
    "C19-i": "FILE NAMES: no name in lena.output is derived with strip/lstrip/rstrip and a multi-character word as argument (a set of "
             "characters, not a suffix: 'x_pdf.pdf'.rstrip('.pdf') is 'x_')",
    "C19-h": "GUARD: LaTeXToPDF yields a pdf only for a process seen to have terminated with return code 0",
    "C19-a": "PAIR: a write in Write.run is followed by output.changed = True before the yield",
    "C19-b": "sticky flag: Write stores True or the incoming value; converters store False only when the incoming flag is falsy; groups use any()",
    "C19-c": "GUARD: a converter is skipped only if the artefact exists, overwrite is off and changed is falsy; an unchanged comparison reaches no write",
    "C19-d": "AGREE: one path variable is written, tested, read, stored and yielded by Write.run",
    "C19-f": "template freshness: the default jinja environment keeps reloading changed templates (auto_reload not disabled)",
    "C19-e": "MakeFilename: existing names are replaced only under overwrite; prefix and suffix are deleted after use",
    "C19-g": "ABSENT FLAG: LaTeXToPDF, which follows Write, does not take a missing output.changed for 'unchanged': it compares the "
             "modification times of the .tex and the .pdf (or assumes a change)",
}
WRITE = "lena.output.write"


def main_loop(ctx, fn):
    params = [p for p in A.func_params(fn) if p != "self"]
    loops = [n for n in A.walk_local(fn) if isinstance(n, ast.For) and isinstance(n.iter, ast.Name) and params
             and n.iter.id == params[0] and A.enclosing(n, (ast.For, ast.While)) is None]
    return loops[0] if len(loops) == 1 else None


def is_changed_store(s):
    """Assign to <x>["changed"]; returns the value node or None."""
    if isinstance(s, ast.Assign):
        for t in s.targets:
            if isinstance(t, ast.Subscript) and A.const(t.slice) == "changed":
                return s.value
    return None


def write_calls(stmt, nm=None):
    out = []
    for c in A.walk_local(stmt):
        if isinstance(c, ast.Call) and isinstance(c.func, ast.Attribute):
            if A.src(c.func) == "self._write_data" or (c.func.attr == "write" and A.src_with(c.func.value, nm or {}) == "data"):
                out.append(c)
    return out


def write_roles(res, fn, loop):
    """Names of the locals of Write.run, recovered from their defining expressions."""
    q = lambda s: s.replace('"', "'")
    return K.local_roles(fn, [
        (lambda v, S: isinstance(v, ast.Call) and res.call_canon(v) == "lena.flow.functions.get_data_context"
         and A.src(v.args[0]) == loop.target.id, ("data", "context")),
        (lambda v, S: q(S(v)).startswith("context.get('output'"), "outputc"),
        (lambda v, S: isinstance(v, ast.Call) and A.src(v.func) == "self._make_filename", ("dirname", "filename", "fileext", "filepath")),
        (lambda v, S: q(S(v)).startswith("outputc.get('changed'") or q(S(v)) == "outputc['changed']", "changed"),
        (lambda v, S: isinstance(v, ast.Call) and res.call_canon(v) in ("builtins.open", "io.open"), "fil"),
        (lambda v, S: isinstance(v, ast.Call) and isinstance(v.func, ast.Attribute) and v.func.attr == "read", "existing_data"),
        (lambda v, S: isinstance(v, ast.Call) and res.call_canon(v) == "os.path.dirname" and S(v.args[0]) == "filepath", "curdir"),
    ], res=res, scope=loop)


_NE_FORM = {"not (data == existing_data)": "data != existing_data", "data == existing_data": "not (data != existing_data)"}


def write_lits(p, nm):
    """Literals of a path of Write.run in canonical spelling (A.norm_src), the comparison of the data (a str on these paths)
    with the file contents always phrased with `!=`: `not (existing_data == data)` reads `data != existing_data`."""
    return [_NE_FORM.get(l, l) for l in K.lit_srcs(p, nm, norm=True)]


def branch_tag(lits):
    """*lits*: path literals in the canonical spelling of A.norm_src (`existing_data != data` reads `data != existing_data`)."""
    if "not os.path.exists(filepath)" in lits:
        return "file-missing"
    tags = []
    for l in lits:
        if l in ("self._overwrite", "self._existing_unchanged", "data != existing_data", "not (data != existing_data)",
                 "hasattr(data, 'write') and callable(data.write)"):
            tags.append(l)
    return "file-exists" + ("[" + ",".join(tags) + "]" if tags else "")


def check_write(ctx):
    res = ctx.res
    fn = ctx.tree.func(WRITE, "Write.run")
    loop = main_loop(ctx, fn)
    if not ctx.require(loop is not None, "C19-a", fn, "Write.run: main loop not found"):
        return
    var = loop.target.id
    nm = write_roles(res, fn, loop)
    S = lambda node: A.src_with(node, nm)
    n_w = 0
    seen = set()
    entry_names = set()
    for n in A.walk_local(loop):
        if isinstance(n, ast.Assign) and len(n.targets) == 1 and isinstance(n.targets[0], ast.Name):
            s = A.src(n.value).replace('"', "'")
            if ".get('changed'" in s or s.endswith("['changed']"):
                entry_names.add(n.targets[0].id)
    for p in P.loop_body_paths(loop):
        lits = write_lits(p, nm)
        ys = [i for i, y in p.yields()]
        for i, e in enumerate(p.ev):
            if e[0] not in ("stmt", "partial"):
                continue
            for c in write_calls(e[1], nm):
                nxt = [y for y in ys if y > i]
                end = nxt[0] if nxt else len(p.ev)
                flagged = any(ev[0] == "stmt" and is_changed_store(ev[1]) is not None and A.is_const(is_changed_store(ev[1]), True)
                              for ev in p.ev[i + 1:end])
                tag = branch_tag(lits)
                key = (S(c), tag, flagged)
                if key in seen:
                    continue
                seen.add(key)
                n_w += 1
                ctx.check("C19-a", flagged, c, "Write.run writes the file (%s) on the path [%s] and yields without setting "
                          "output.changed = True: a downstream converter that sees an unchanged or missing flag keeps a stale artefact"
                          % (A.src(c), p.describe()), detail="write on path [%s] is followed by changed = True" % tag,
                          construct="%s @ %s" % (S(c), tag), path=lits)
        # (b) stores
        for i, e in enumerate(p.ev):
            if e[0] != "stmt":
                continue
            v = is_changed_store(e[1])
            if v is None:
                continue
            if A.is_const(v, True):
                continue
            ok = isinstance(v, ast.Name) and v.id in entry_names and not rebound_between(p, v.id, i)
            key = ("store", S(e[1]), branch_tag(lits))
            if key in seen:
                continue
            seen.add(key)
            ctx.check("C19-b", ok, e[1], "Write.run stores `%s` into output.changed on path [%s]: only True or the value read on entry "
                      "may be stored (a True set upstream must stay true downstream)" % (A.src(v), p.describe()),
                      detail="store of the incoming flag `%s`" % S(v), construct="%s @ %s" % (S(e[1]), branch_tag(lits)), path=p)
    ctx.instances_floor("C19-a", n_w, 4, "write sites x branches in Write.run")
    # entry read has default False
    for n in A.walk_local(loop):
        if isinstance(n, ast.Assign) and len(n.targets) == 1 and isinstance(n.targets[0], ast.Name) and n.targets[0].id in entry_names:
            v = n.value
            if isinstance(v, ast.Call) and A.call_name(v) == "get":
                ctx.check("C19-b", len(v.args) == 2 and A.is_const(v.args[1], False), n, "the incoming flag is read with default `%s`, not False"
                          % (A.src(v.args[1]) if len(v.args) > 1 else "None"), detail="incoming flag defaults to False")
    # (c) an unchanged comparison reaches no write; existing file rewritten only under overwrite / difference
    for p in P.loop_body_paths(loop):
        lits = write_lits(p, nm)
        if "os.path.exists(filepath)" not in lits:
            continue
        for e in p.ev:
            if e[0] == "stmt":
                for c in write_calls(e[1], nm):
                    if A.src(c.func) != "self._write_data":
                        continue
                    ok = "self._overwrite" in lits or "data != existing_data" in lits
                    key = ("rewrite", tuple(l for l in lits if "exist" in l or "overwrite" in l or "!=" in l))
                    if key in seen:
                        continue
                    seen.add(key)
                    ctx.check("C19-c", ok, c, "Write.run rewrites an existing file on path [%s] without overwrite and without the data "
                              "being different: an unchanged run must rewrite nothing" % p.describe(),
                              detail="existing file rewritten only under overwrite or data != existing_data", path=p,
                              construct="rewrite @ " + ",".join(key[1]))
    check_write_path_var(ctx, fn, loop, nm)


def rebound_between(p, name, upto):
    first = None
    for i, e in enumerate(p.ev[:upto]):
        if e[0] == "stmt":
            for t in A.assigned_targets(e[1]):
                if name in A.target_names(t):
                    if first is None:
                        first = i
                    else:
                        return True
    return False


def check_write_path_var(ctx, fn, loop, nm):
    res = ctx.res
    S = lambda node: A.src_with(node, nm)
    uses = {}
    for n in A.walk_local(loop):
        if isinstance(n, ast.Call):
            s = A.src(n.func)
            canon = res.canon(n.func)
            if s == "self._write_data" and n.args:
                uses.setdefault("written", set()).add(S(n.args[0]))
            elif isinstance(n.func, ast.Attribute) and n.func.attr == "write" and S(n.func.value) == "data" and n.args:
                uses.setdefault("written", set()).add(S(n.args[0]))
            elif canon == "os.path.exists" and n.args and S(n.args[0]) != "curdir":
                uses.setdefault("tested", set()).add(S(n.args[0]))
            elif canon in ("builtins.open", "io.open") and n.args:
                uses.setdefault("read", set()).add(S(n.args[0]))
        elif isinstance(n, ast.Assign):
            for t in n.targets:
                if isinstance(t, ast.Subscript) and A.const(t.slice) == "filepath":
                    uses.setdefault("stored", set()).add(S(n.value))
        elif isinstance(n, ast.Yield) and isinstance(n.value, ast.Tuple) and n.value.elts:
            uses.setdefault("yielded", set()).add(S(n.value.elts[0]))
    allv = set()
    for v in uses.values():
        allv |= v
    ctx.check("C19-d", len(allv) == 1 and set(uses) >= {"written", "tested", "read", "stored", "yielded"}, loop,
              "Write.run uses different path expressions: %s -- the file that is written, tested for existence, compared, recorded in "
              "output.filepath and yielded must be the same" % {k: sorted(v) for k, v in sorted(uses.items())},
              detail="one path variable %s is written, tested, read, stored and yielded" % sorted(allv), construct="path-variable")
    if len(allv) != 1:
        return
    name = allv.pop()
    actual = [k for k, v in nm.items() if v == name]
    name = actual[0] if actual else name
    defs = [n for n in A.walk_local(loop) if isinstance(n, (ast.Assign, ast.AugAssign)) and any(name in A.target_names(t) for t in A.assigned_targets(n))]
    ok = len(defs) == 1 and isinstance(defs[0], ast.Assign) and isinstance(defs[0].value, ast.Call) and A.src(defs[0].value.func) == "self._make_filename"
    ctx.check("C19-d", ok, loop, "`%s` is not defined exactly once from self._make_filename(...)" % name,
              detail="%s defined once by _make_filename" % name, construct="path-definition")
    mf = ctx.tree.func(WRITE, "Write._make_filename")
    rets = [r for r in A.walk_local(mf) if isinstance(r, ast.Return) and A.enclosing_func(r) is mf]
    okj = False
    retv = rets[0].value if len(rets) == 1 else None
    if isinstance(retv, ast.Name) and A.single_def(mf, retv.id) is not None:     # `_ret = (...); return _ret`
        retv = A.single_def(mf, retv.id)
    if isinstance(retv, ast.Tuple) and len(retv.elts) == 4 and ok:
        # position of the path in the returned tuple = position of `name` in the unpacking
        tgt = defs[0].targets[0]
        if isinstance(tgt, ast.Tuple):
            pos = [i for i, e in enumerate(tgt.elts) if A.src(e) == name]
            if pos:
                rv = retv.elts[pos[0]]
                if isinstance(rv, ast.Name):
                    last = [a for a in mf.body if isinstance(a, ast.Assign) and any(A.src(t) == rv.id for t in a.targets)]
                    if last:
                        v = last[-1].value
                        first = retv.elts[0]
                        okj = isinstance(v, ast.Call) and res.canon(v.func) == "os.path.join" and len(v.args) == 3 \
                            and A.src(v.args[0]) == "self.output_directory" and isinstance(first, ast.Name) \
                            and A.src(v.args[1]) == first.id
    ctx.check("C19-d", okj, mf, "_make_filename does not build the path as os.path.join(self.output_directory, dirname, <file name>)",
              detail="path = os.path.join(self.output_directory, dirname, filename[.ext])", construct="path-join")


# -- converters -------------------------------------------------------------------

def atoms_of_case(case):
    return [(A.norm_src(t).replace('"', "'"), pol) for t, pol in case]


def incoming_changed_false(atoms, names):
    for s, pol in atoms:
        if pol is False and (s in names or ".get('changed'" in s or s.endswith("['changed']")):
            return True
    return False


def check_converter(ctx, modname, qual, launch_names, artefact_hint):
    res = ctx.res
    fn = ctx.tree.func(modname, qual)
    loop = main_loop(ctx, fn)
    if not ctx.require(loop is not None, "C19-c", fn, "%s: main loop not found" % qual):
        return
    var = loop.target.id
    names = set()
    for n in A.walk_local(loop):
        if isinstance(n, ast.Assign) and len(n.targets) == 1 and isinstance(n.targets[0], ast.Name):
            s = A.src(n.value).replace('"', "'")
            if ".get('changed'" in s or s.endswith("['changed']"):
                names.add(n.targets[0].id)
    n_launch = n_skip = 0
    seen = set()
    for p in P.loop_body_paths(loop):
        ys = p.yields()
        passes = ys and isinstance(ys[-1][1], ast.Yield) and isinstance(ys[-1][1].value, ast.Name) and ys[-1][1].value.id == var
        launched = [c for e in p.ev if e[0] == "stmt" for c in A.walk_local(e[1])
                    if isinstance(c, ast.Call) and A.call_name(c) in launch_names]
        stores = [(e[1], is_changed_store(e[1])) for e in p.ev if e[0] == "stmt" and is_changed_store(e[1]) is not None]
        if passes and not launched and not stores:
            continue
        if p.end in ("raise",):
            continue
        try:
            cases = [atoms_of_case(c) for c in p.cases()]
        except Exception:
            cases = [[(s, True) for s in p.literal_srcs()]]
        # stores of False
        for st, v in stores:
            if A.is_const(v, False):
                ok = all(incoming_changed_false(c, names) for c in cases)
                key = ("false", A.src(st), ok)
                if key in seen:
                    continue
                seen.add(key)
                ctx.check("C19-b", ok, st, "%s stores output.changed = False on path [%s], whose condition does not include the falsity "
                          "of the incoming flag: a change signalled upstream is erased and later converters keep stale artefacts"
                          % (qual, p.describe()), detail="%s: False stored only when the incoming flag is falsy" % qual, path=p)
            elif not A.is_const(v, True):
                ok = isinstance(v, ast.Name) and v.id in names
                ctx.check("C19-b", ok, st, "%s stores `%s` into output.changed" % (qual, A.src(v)), detail="store of the incoming flag", path=p)
        if launched:
            n_launch += 1
            li = max(i for i, e in enumerate(p.ev) if e[0] == "stmt" and any(c in launched for c in A.walk_local(e[1])))
            consts = [v for st, v in stores]
            last_true = bool(consts) and A.is_const(consts[-1], True)
            key = ("launch", last_true, tuple(A.src(v) for v in consts))
            if key not in seen:
                seen.add(key)
                ctx.check("C19-a", last_true, launched[0], "%s launches the converter on path [%s] but leaves output.changed = %s: the "
                          "%s is regenerated, yet artefacts derived from it downstream are told that nothing changed" % (
                              qual, p.describe(), A.src(consts[-1]) if consts else "<unset>", artefact_hint),
                          detail="%s: a launch is paired with output.changed = True" % qual,
                          construct="launch-without-changed", path=p)
            continue
        if not ys:
            continue
        # a selected value that is not converted: the skip path
        n_skip += 1
        for c in cases:
            has_exists = any(pol is True and "os.path.exists(" in s for s, pol in c)
            no_over = any(pol is False and s == "self._overwrite" for s, pol in c)
            unchanged = incoming_changed_false(c, names)
            ok = has_exists and no_over and unchanged
            key = ("skip", has_exists, no_over, unchanged)
            if key in seen:
                continue
            seen.add(key)
            missing = [w for w, b in (("the artefact exists", has_exists), ("overwrite is off", no_over), ("the incoming changed flag is falsy", unchanged)) if not b]
            ctx.check("C19-c", ok, loop, "%s skips the conversion on path [%s] although its condition does not establish that %s: "
                      "a missing or outdated %s would not be regenerated" % (qual, p.describe(), " and ".join(missing), artefact_hint),
                      detail="%s: skip requires exists(artefact), not overwrite, not changed" % qual,
                      construct="skip-without:" + ",".join(missing), path=p)
    ctx.check("C19-c", n_launch >= 1, loop, "%s never launches its converter" % qual, detail="%s has a launching path" % qual, construct="no-launch")
    ctx.check("C19-c", n_skip >= 1, loop, "%s launches its converter unconditionally: a run whose inputs are unchanged must launch no "
              "converter" % qual, detail="%s has a skipping path" % qual, construct="no-skip")


def check_groups(ctx):
    res = ctx.res
    gp = ctx.tree.func("lena.flow.group_plots", "group_plots")
    okg = False
    for n in A.walk_local(gp):
        if isinstance(n, ast.Assign) and isinstance(n.value, ast.Call) and A.call_name(n.value) == "any" and "output.changed" in A.src(n.value):
            name = n.targets[0].id if isinstance(n.targets[0], ast.Name) else None
            for c in A.walk_local(gp):
                if isinstance(c, ast.Call) and A.call_name(c) == "update_recursively" and len(c.args) == 3 \
                        and A.const(c.args[1]) == "output.changed" and A.src(c.args[2]) == name:
                    okg = True
    if not okg:
        # any() written as a loop: `changed = False; for c in contexts: if <flag of c>: changed = True [; break]`
        for l in [l for l in A.walk_local(gp) if isinstance(l, ast.For) and isinstance(l.target, ast.Name) and not l.orelse]:
            body = [b for b in l.body if not A.is_noop_stmt(b)]
            if len(body) != 1 or not isinstance(body[0], ast.If) or body[0].orelse:
                continue
            t = body[0].test
            if not (isinstance(t, ast.Call) and A.call_name(t) == "get_recursively" and len(t.args) >= 2 and A.src(t.args[0]) == l.target.id
                    and A.const(t.args[1]) == "output.changed" and (len(t.args) < 3 or not A.const(t.args[2], True))):
                continue
            ib = [b for b in body[0].body if not A.is_noop_stmt(b)]
            if not ib or not (isinstance(ib[0], ast.Assign) and len(ib[0].targets) == 1 and isinstance(ib[0].targets[0], ast.Name)
                              and A.is_const(ib[0].value, True)) or any(not isinstance(b, ast.Break) for b in ib[1:]):
                continue
            name = ib[0].targets[0].id
            blk = getattr(A.parent(l), "body", [])
            before = [b for b in blk[:blk.index(l)] if not A.is_noop_stmt(b)] if l in blk else []
            init_ok = bool(before) and isinstance(before[-1], ast.Assign) and A.src(before[-1].targets[0]) == name and A.is_const(before[-1].value, False)
            others = [a for a in A.walk_local(gp) if isinstance(a, (ast.Assign, ast.AugAssign)) and any(name in A.target_names(x) for x in A.assigned_targets(a))
                      and a is not ib[0] and not (before and a is before[-1])]
            stored = any(isinstance(c, ast.Call) and A.call_name(c) == "update_recursively" and len(c.args) == 3
                         and A.const(c.args[1]) == "output.changed" and A.src(c.args[2]) == name for c in A.walk_local(gp))
            if init_ok and not others and stored:
                okg = True
    ctx.check("C19-b", okg, gp, "group_plots does not set the group's output.changed to any(members' output.changed)",
              detail="group_plots: changed = any(members)", construct="group_plots-any")
    ug = ctx.tree.func("lena.flow.group_plots", "_update_with_group")
    ups = A.func_params(ug)
    q = lambda x: x.replace('"', "'")
    is_flag_lookup = lambda v, of: isinstance(v, ast.Call) and res.call_canon(v) == "lena.context.functions.get_recursively" \
        and len(v.args) >= 2 and A.src(v.args[0]) == of and A.const(v.args[1]) == "output.changed"
    gm = K.local_roles(ug, [
        (lambda v, S: is_flag_lookup(v, ups[0]), "context_changed"),
        (lambda v, S: isinstance(v, ast.Call) and A.call_name(v) == "set" and v.args and isinstance(v.args[0], (ast.GeneratorExp, ast.ListComp))
         and is_flag_lookup(v.args[0].elt, A.src(v.args[0].generators[0].target)) and A.src(v.args[0].generators[0].iter) == ups[1]
         and not v.args[0].generators[0].ifs, "all_changed"),
        (lambda v, S: isinstance(v, ast.SetComp) and len(v.generators) == 1
         and is_flag_lookup(v.elt, A.src(v.generators[0].target)) and A.src(v.generators[0].iter) == ups[1]
         and not v.generators[0].ifs, "all_changed"),
    ], res=res)
    # the flag that is finally stored with update_recursively(context, "output.changed", <flag>)
    for c in A.walk_local(ug):
        if isinstance(c, ast.Call) and res.call_canon(c) == "lena.context.functions.update_recursively" and len(c.args) == 3 \
                and A.const(c.args[1]) == "output.changed" and isinstance(c.args[2], ast.Name) and A.src(c.args[0]) == ups[0]:
            gm.setdefault(c.args[2].id, "changed")
    # on every path where `changed` ends up False, the condition includes not any(all_changed)
    n = 0
    for p in P.paths_of(ug):
        for i, e in enumerate(p.ev):
            if e[0] == "stmt" and isinstance(e[1], ast.Assign) and any(A.src_with(t, gm) == "changed" for t in e[1].targets):
                v = e[1].value
                lits = K.lit_srcs(p, gm, upto=i, norm=True)
                if A.is_const(v, False):
                    n += 1
                    ctx.check("C19-b", "not any(all_changed)" in lits, e[1], "_update_with_group sets changed = False on a path that does not "
                              "exclude a true member flag [%s]" % " and ".join(lits), detail="False only if no member (nor the group) changed",
                              construct="update_with_group-false", path=lits)
                elif A.is_const(v, True):
                    ctx.check("C19-b", "any(all_changed)" in lits, e[1], "_update_with_group sets changed = True not under any(all_changed)",
                              detail="True when any member changed", construct="update_with_group-true", path=lits)
    ctx.instances_floor("C19-b/group", n, 1, "False-assignments in _update_with_group")
    # all_changed collects the members' and the group's own flag
    adds = [c for c in A.walk_local(ug) if isinstance(c, ast.Call) and isinstance(c.func, ast.Attribute) and c.func.attr == "add"
            and A.src_with(c.func.value, gm) == "all_changed" and len(c.args) == 1 and A.src_with(c.args[0], gm) == "context_changed"]
    ctx.check("C19-b", len(adds) == 1 and "all_changed" in gm.values() and A.enclosing(adds[0], (ast.If, ast.For, ast.While)) is None, ug,
              "_update_with_group does not combine the flags of all members and of the group itself",
              detail="all member flags and the group's flag are combined", construct="update_with_group-members")


# -- MakeFilename -------------------------------------------------------------------

def branch_of(node, iff):
    """'body' / 'orelse' / 'test': the part of the If statement *iff* that contains *node*; None if not inside (or iff is None)."""
    if iff is None:
        return None
    ch = node
    for a in A.ancestors(node):
        if a is iff:
            if any(ch is x for x in iff.body):
                return "body"
            if any(ch is x for x in iff.orelse):
                return "orelse"
            return "test"
        ch = a
    return None


def check_make_filename(ctx):
    res = ctx.res
    fn = ctx.tree.func("lena.output.make_filename", "MakeFilename.__call__")
    loops = [n for n in A.walk_local(fn) if isinstance(n, ast.For) and A.src(n.iter) == "self._methods"]
    if not ctx.require(len(loops) == 1 and isinstance(loops[0].target, ast.Tuple) and len(loops[0].target.elts) == 2, "C19-e", fn,
                       "MakeFilename.__call__: loop `for key, method in self._methods` not found"):
        return
    loop = loops[0]
    val = [p for p in A.func_params(fn) if p != "self"][0]
    is_lookup = lambda v, key: isinstance(v, ast.Call) and res.call_canon(v) == "lena.context.functions.get_recursively" \
        and len(v.args) >= 2 and A.const(v.args[1]) == key
    nm = K.local_roles(fn, [
        (lambda v, S: isinstance(v, ast.Call) and res.call_canon(v) == "lena.flow.functions.get_context" and A.src(v.args[0]) == val, "context"),
        (lambda v, S: S(v) == "self._methods", ("key", "meth")),
        (lambda v, S: isinstance(v, ast.Call) and S(v.func) == "meth", "res"),
        (lambda v, S: is_lookup(v, "output.prefix"), "prefix"),
        (lambda v, S: is_lookup(v, "output.suffix"), "suffix"),
    ], res=res)
    S = lambda node: A.src_with(node, nm)
    # an existing name is recognised by its presence, not by its truth value: '' is a name (a plot placed directly in the output
    # directory has dirname '', a file without extension has fileext '')
    from ..kinds import truth_tests
    by_truth = []
    for x in A.walk_body(loop.body):
        if isinstance(x, (ast.If, ast.IfExp, ast.While)):
            for t in truth_tests(x.test):
                falsy_default = lambda d: d is None or (isinstance(d, ast.Constant) and not d.value)
                if isinstance(t, ast.Call) and res.call_canon(t) == "lena.context.functions.get_recursively" and len(t.args) >= 2 \
                        and "output" in A.src(t.args[1]) and falsy_default(t.args[2] if len(t.args) > 2 else A.kwarg(t, "default")):
                    by_truth.append((x, t))
                elif isinstance(t, ast.Call) and isinstance(t.func, ast.Attribute) and t.func.attr == "get" and len(t.args) >= 1 \
                        and falsy_default(t.args[1] if len(t.args) > 1 else None) and "output" in A.src(t.func.value):
                    by_truth.append((x, t))
    for x, t in by_truth:
        ctx.violation("C19-e", t, "MakeFilename decides whether a name already exists by the truth value of `%s`: an existing empty "
                      "dirname or fileext (both legal, Write handles them) counts as absent, a later MakeFilename without overwrite "
                      "replaces it and the file is written elsewhere than the names given first say" % A.short(t, 60),
                      construct="name-present-by-truth")
    if by_truth:
        return
    n_store = 0
    seen = set()
    for p in P.loop_body_paths(loop):
        stores = [e[1] for e in p.ev if e[0] == "stmt" for c in A.walk_local(e[1])
                  if isinstance(c, ast.Call) and A.call_name(c) == "update_recursively"]
        if not stores:
            continue
        try:
            cases = [[(A.norm_src(t, nm).replace('"', "'"), pol) for t, pol in c] for c in p.cases()]
        except Exception:
            continue
        for c in cases:
            atoms = dict((s, pol) for s, pol in c)
            # is this iteration about a name key?
            name_key = atoms.get("key in ['filename', 'fileext', 'dirname']")
            if name_key is not True:
                continue
            present = atoms.get("'output' in context") is True and atoms.get("key in context['output']") is True
            if not present:
                ok = True
                why = "absent"
            else:
                ok = atoms.get("self._overwrite") is True
                why = "present"
            key = (why, ok)
            if key in seen:
                continue
            seen.add(key)
            n_store += 1
            ctx.check("C19-e", ok, stores[0], "MakeFilename stores output.<name> although the key is already present and overwrite is "
                      "not set [%s]" % p.describe(), detail="name key %s: stored only if absent or overwrite" % why,
                      construct="name-store:%s" % why, path=p)
    ctx.instances_floor("C19-e", n_store, 2, "name-key store cases")
    # prefix/suffix use => delete
    for part in ("prefix", "suffix"):
        used = [n for n in A.walk_local(loop) if isinstance(n, ast.Assign) and any(S(t) == part for t in n.targets)
                and "output.%s" % part in A.src(n.value)]
        dels = [n for n in A.walk_local(loop) if isinstance(n, ast.Delete) and any(
            S(t).replace('"', "'") == "context['output']['%s']" % part for t in n.targets)]
        ok = len(used) == 1 and len(dels) == 1
        if ok:
            d = dels[0]
            # `if prefix: del ...` or the equivalent `if not prefix: ... else: del ...`
            guard = A.enclosing(d, (ast.If,))
            gt, gpol = A.strip_not(guard.test) if guard is not None else (None, True)
            ok = guard is not None and S(gt) == part and branch_of(d, guard) == ("body" if gpol else "orelse") \
                and d.lineno > used[0].lineno and A.enclosing(used[0], (ast.If,)) is A.enclosing(guard, (ast.If,)) \
                and branch_of(used[0], A.enclosing(guard, (ast.If,))) == branch_of(guard, A.enclosing(guard, (ast.If,)))
        ctx.check("C19-e", ok, loop, "MakeFilename uses output.%s in the file name without deleting it afterwards (or deletes it elsewhere): "
                  "the %s would be applied again by the next MakeFilename" % (part, part),
                  detail="output.%s deleted after it is merged into the file name" % part, construct="%s-delete" % part)
    # res = prefix + res + suffix
    conc = [n for n in A.walk_local(loop) if isinstance(n, ast.Assign) and S(n.value).replace(" ", "") == "prefix+res+suffix"
            and any(S(t) == "res" for t in n.targets)]
    ctx.check("C19-e", len(conc) == 1, loop, "MakeFilename does not build the name as prefix + res + suffix exactly once",
              detail="name = prefix + res + suffix once", construct="concat")


def check_template_freshness(ctx):
    """RenderLaTeX must see an edited template on the next run: the default jinja
    environment is not configured to stop reloading templates."""
    mod = ctx.tree.module("lena.output.render_latex")
    bad = []
    for n in ast.walk(mod.tree):
        if isinstance(n, ast.keyword) and n.arg == "auto_reload" and A.is_const(n.value, False):
            bad.append(n.value)
        if isinstance(n, ast.Assign) and any(isinstance(t, ast.Subscript) and A.const(t.slice) == "auto_reload" for t in n.targets) \
                and A.is_const(n.value, False):
            bad.append(n)
        if isinstance(n, ast.Dict):
            for k, v in zip(n.keys, n.values):
                if k is not None and A.const(k) == "auto_reload" and A.is_const(v, False):
                    bad.append(v)
    for b in bad:
        ctx.violation("C19-f", b, "the jinja environment of RenderLaTeX is configured with auto_reload=False: a template edited between "
                      "runs is rendered from the cached old version, so the .tex (and everything derived from it) does not match "
                      "the current template", construct="auto_reload=False")
    if not bad:
        ctx.ok("C19-f", (mod.name, "<module>"), "no auto_reload=False in the default jinja environment")


def check_absent_flag(ctx):
    """Write.run leaves output.changed unset when it creates a file that did not exist (known finding C19-a).  The converter
    that follows it must therefore decide the missing-flag case from the files themselves: tex newer than pdf => changed,
    no pdf => changed.  Reading the flag with a falsy default turns 'new .tex, old .pdf' into a stale plot."""
    res = ctx.res
    fn = ctx.tree.func("lena.output.latex_to_pdf", "LaTeXToPDF.run")
    loop = main_loop(ctx, fn)
    if not ctx.require(loop is not None, "C19-g", fn, "LaTeXToPDF.run: main loop not found"):
        return
    reads = []
    for n in A.walk_local(loop):
        if isinstance(n, ast.Call) and isinstance(n.func, ast.Attribute) and n.func.attr == "get" and n.args and A.const(n.args[0]) == "changed":
            reads.append(("get", n))
        elif isinstance(n, ast.Subscript) and isinstance(n.ctx, ast.Load) and A.const(n.slice) == "changed":
            reads.append(("item", n))
    if not ctx.require(reads, "C19-g", loop, "LaTeXToPDF.run does not read output.changed"):
        return
    for kind, n in reads:
        if kind == "get":
            d = n.args[1] if len(n.args) > 1 else ast.Constant(value=None)
            falsy = isinstance(d, ast.Constant) and not d.value
            ctx.check("C19-g", not falsy, n, "LaTeXToPDF.run reads the flag as `%s`: a missing output.changed is taken for 'unchanged', but "
                      "Write leaves the flag unset for a file it has just created -- a rewritten .tex next to an old .pdf is then not "
                      "converted again (stale plot)" % A.short(n, 50), detail="missing flag is not defaulted to a falsy constant",
                      construct="absent-flag-falsy-default")
            continue
        tr = A.enclosing(n, ast.Try)
        hs = [h for h in (tr.handlers if tr is not None and any(n in list(ast.walk(b)) for b in tr.body) else [])
              if h.type is not None and res.canon(h.type) in ("builtins.KeyError", "builtins.LookupError", "builtins.Exception")]
        if not ctx.check("C19-g", bool(hs), n, "LaTeXToPDF.run reads output['changed'] without handling its absence (KeyError for a value "
                         "written by a Write that created the file)", detail="absence of the flag handled", construct="absent-flag-unhandled"):
            continue
        # on every path through the handler, the local that holds the flag ends up True or derived from getmtime of two files
        par = A.parent(n)
        var = par.targets[0].id if isinstance(par, ast.Assign) and isinstance(par.targets[0], ast.Name) else None
        if not ctx.require(var is not None, "C19-g", n, "the flag is not read into a local"):
            continue
        n_h = 0
        for q in P.paths_through(hs[0].body):
            n_h += 1
            defs = [x for x in q.stmts() if isinstance(x, ast.Assign) and any(isinstance(t, ast.Name) and t.id == var for t in x.targets)]
            ok = bool(defs)
            if ok:
                v = defs[-1].value
                if isinstance(v, ast.Constant):
                    ok = v.value is True
                else:
                    times = [c for c in ast.walk(v) if isinstance(c, ast.Name)]
                    srcs = set()
                    for nm in times:
                        dd = [x for x in q.stmts() if isinstance(x, ast.Assign) and any(isinstance(t, ast.Name) and t.id == nm.id for t in x.targets)]
                        for x in dd:
                            if isinstance(x.value, ast.Call) and res.canon(x.value.func) in ("os.path.getmtime", "os.stat"):
                                srcs.add(A.src(x.value.args[0]) if x.value.args else "?")
                    for c in ast.walk(v):
                        if isinstance(c, ast.Call) and res.canon(c.func) in ("os.path.getmtime", "os.stat") and c.args:
                            srcs.add(A.src(c.args[0]))
                    ok = isinstance(v, ast.Compare) and len(srcs) == 2
            ctx.check("C19-g", ok, hs[0], "LaTeXToPDF.run: when output.changed is missing [%s] the flag becomes `%s`, not True or a comparison "
                      "of the modification times of the .tex and the .pdf" % (q.describe(3), A.short(defs[-1].value, 40) if defs else "<unset>"),
                      detail="missing flag => newer-than comparison or True [%s]" % q.describe(2), construct="absent-flag-path:%s" % q.describe(2), path=q)
        ctx.instances_floor("C19-g", n_h, 2, "paths through the missing-flag handler of LaTeXToPDF.run")


def check_only_successful_yield(ctx):
    """LaTeXToPDF hands a (pdf, context) on only for a converter process that has terminated with return code 0: in
    pop_returned_processes every path that yields has established `returncode is not None` and refuted `returncode`
    (whatever the verbosity).  A failed conversion yielded downstream names a file that was not (re)made."""
    fn = ctx.tree.maybe("lena.output.latex_to_pdf", "LaTeXToPDF.run.pop_returned_processes")
    if not ctx.require(fn is not None, "C19-h", ctx.tree.func("lena.output.latex_to_pdf", "LaTeXToPDF.run"),
                       "LaTeXToPDF.run: the helper that collects terminated processes (pop_returned_processes) not found"):
        return
    rcs = {a.targets[0].id for a in A.walk_local(fn) if isinstance(a, ast.Assign) and len(a.targets) == 1 and isinstance(a.targets[0], ast.Name)
           and isinstance(a.value, ast.Call) and isinstance(a.value.func, ast.Attribute) and a.value.func.attr in ("poll", "wait")}
    if not ctx.require(len(rcs) == 1, "C19-h", fn, "pop_returned_processes: the local holding proc.poll() not found"):
        return
    rc = rcs.pop()
    n = 0
    seen = set()
    for p in P.paths_of(fn):
        ys = p.yields()
        if not ys:
            continue
        upto = ys[0][0]
        terminated = zero = False
        for e in p.ev[:upto]:
            if e[0] != "cond":
                continue
            for t, pol in A.literals(e[1], e[2]):
                if isinstance(t, ast.Name) and t.id == rc and pol is False:
                    zero = True
                if isinstance(t, ast.Compare) and len(t.ops) == 1 and isinstance(t.left, ast.Name) and t.left.id == rc \
                        and isinstance(t.comparators[0], ast.Constant):
                    cv, op = t.comparators[0].value, t.ops[0]
                    if cv is None and isinstance(op, (ast.IsNot, ast.NotEq)) and pol or cv is None and isinstance(op, (ast.Is, ast.Eq)) and not pol:
                        terminated = True
                    if cv == 0 and cv is not False and (isinstance(op, ast.Eq) and pol or isinstance(op, ast.NotEq) and not pol):
                        zero = True
        key = (terminated, zero, p.describe(3))
        if key in seen:
            continue
        seen.add(key)
        n += 1
        ctx.check("C19-h", terminated and zero, ys[0][1], "LaTeXToPDF yields the pdf of a process on path [%s] without having seen that it "
                  "%s: the pdf of a failed (or still running) conversion is passed on as if it had been made"
                  % (p.describe(), "terminated" if not terminated else "returned 0"),
                  detail="yield only after returncode is not None and not returncode [%s]" % p.describe(3),
                  construct="yield-without-success:%s" % ("running" if not terminated else "failed"), path=p)
    ctx.instances_floor("C19-h", n, 1, "yielding paths of pop_returned_processes")


def check_name_derivation(ctx):
    """C19-i.  The image PDFToPNG writes, tests for existence and yields is named after the pdf.  str.rstrip(".pdf") strips
    the characters '.', 'p', 'd', 'f' from the end, so plots called x_pdf / x_ppf / eff lose part of their name, two of them
    get the same image and the yielded file is not output_directory/filename.png.  The argument of strip/lstrip/rstrip is a
    character set; a constant of several characters containing a letter or digit is a mistaken suffix/prefix removal."""
    n = 0
    bad = 0
    for mod, fn in ctx.tree.functions():
        if not mod.name.startswith("lena.output"):
            continue
        for c in A.walk_local(fn):
            if isinstance(c, ast.Call) and isinstance(c.func, ast.Attribute) and c.func.attr in ("strip", "lstrip", "rstrip"):
                n += 1
                if len(c.args) == 1 and isinstance(c.args[0], ast.Constant) and isinstance(c.args[0].value, str) \
                        and len(c.args[0].value) > 1 and any(ch.isalnum() for ch in c.args[0].value):
                    bad += 1
                    ctx.violation("C19-i", c, "%s derives a name with `%s`: the argument of %s is a set of characters, not a %s -- every "
                                  "trailing/leading character from %r is removed, so a file name ending in one of these letters is "
                                  "cut short (two plots may get one image, and the yielded file is not the one named by the context)" % (
                                      A.qualname(fn), A.short(c, 50), c.func.attr, "suffix" if c.func.attr != "lstrip" else "prefix",
                                      c.args[0].value), construct="strip-word:%s" % A.qualname(fn))
    ctx.note("strip_calls_in_lena_output", n)
    names = [c for mod, fn in ctx.tree.functions() if mod.name == "lena.output.pdf_to_png" for c in A.walk_local(fn)
             if isinstance(c, ast.Call) and isinstance(c.func, ast.Attribute) and c.func.attr in ("replace", "splitext", "rstrip", "strip", "removesuffix")]
    ctx.instances_floor("C19-i", len(names), 1, "derivations of the image name from the pdf name in lena.output.pdf_to_png")
    if not bad:
        ctx.ok("C19-i", ("lena.output", "<package>"), "no name derived by stripping a word (%d strip calls)" % n)


def check(ctx):
    check_name_derivation(ctx)
    check_only_successful_yield(ctx)
    check_absent_flag(ctx)
    check_template_freshness(ctx)
    check_write(ctx)
    check_converter(ctx, "lena.output.latex_to_pdf", "LaTeXToPDF.run", {"launch"}, "pdf")
    check_converter(ctx, "lena.output.pdf_to_png", "PDFToPNG.run", {"_run_command"}, "image")
    check_groups(ctx)
    check_make_filename(ctx)


VARIANTS = [
    M("png-name-by-rstrip", "lena/output/pdf_to_png.py", "                data = pdf_name.replace(\".pdf\", \"\")", "                data = pdf_name.rstrip(\".pdf\")", ["C19-i"]),
    M("latex-yield-failed", "lena/output/latex_to_pdf.py", "                    if returncode:\n                        # an error occurred\n                        del processes[filename]\n                        continue\n                    else:",
      "                    if returncode and verbose:\n                        # an error occurred\n                        del processes[filename]\n                        continue\n                    else:", ["C19-h"]),
    M("make-filename-name-present-by-truth", "lena/output/make_filename.py", "                if \"output\" in context and key in context[\"output\"]:\n                    if not self._overwrite:\n                        continue", "                if not self._overwrite and lena.context.get_recursively(\n                        context, \"output.\" + key, None):\n                    continue", ["C19-e"]),
    M("latex-missing-flag-unchanged", "lena/output/latex_to_pdf.py", "            try:\n                changed = outputc[\"changed\"]\n            except KeyError:\n                # if context.output.changed is missing, we compare times\n                # for tex and pdf files.\n                try:\n                    pdf_time = os.path.getmtime(data)\n                except os.error:\n                    # probably changed won't be used, but anyway\n                    changed = True\n                else:\n                    tex_time = os.path.getmtime(texfile_name)\n                    changed = tex_time > pdf_time", "            changed = outputc.get(\"changed\", False)", ["C19-g"]),
    M("latex-missing-flag-handler-false", "lena/output/latex_to_pdf.py", "                    tex_time = os.path.getmtime(texfile_name)\n                    changed = tex_time > pdf_time", "                    changed = False", ["C19-g"]),
    M("overwrite-no-flag", "lena/output/write.py", "                    self._write_data(filepath, data)\n                    outputc[\"changed\"] = True\n                    yield (filepath, context)\n                    continue",
      "                    self._write_data(filepath, data)\n                    yield (filepath, context)\n                    continue", ["C19-a"]),
    M("differs-no-flag", "lena/output/write.py", "                if data != existing_data:\n                    self._write_data(filepath, data)\n                    outputc[\"changed\"] = True",
      "                if data != existing_data:\n                    self._write_data(filepath, data)", ["C19-a"]),
    M("write-resets-flag", "lena/output/write.py", "                        print(\"# file unchanged, Write skips {}\"\\\n                              .format(filepath))\n                    outputc[\"changed\"] = changed",
      "                        print(\"# file unchanged, Write skips {}\"\\\n                              .format(filepath))\n                    outputc[\"changed\"] = False", ["C19-b"]),
    M("pdf-launch-keeps-flag", "lena/output/latex_to_pdf.py", "                outputc[\"changed\"] = True\n                launch(", "                launch(", ["C19-a"]),
    M("pdf-false-unconditional", "lena/output/latex_to_pdf.py", "if not self._overwrite and os.path.exists(data) and not changed:",
      "if not self._overwrite and os.path.exists(data):", ["C19-b", "C19-c"]),
    M("pdf-no-exists", "lena/output/latex_to_pdf.py", "if not self._overwrite and os.path.exists(data) and not changed:",
      "if not self._overwrite and not changed:", ["C19-c"]),
    M("png-ignores-changed", "lena/output/pdf_to_png.py", "or self._overwrite or outputc.get(\"changed\", False):", "or self._overwrite:", ["C19-b", "C19-c"]),
    M("png-always", "lena/output/pdf_to_png.py", "                if not os.path.exists(data + \".\" + self._format)\\\n                    or self._overwrite or outputc.get(\"changed\", False):",
      "                if True:", ["C19-c"]),
    M("write-always-rewrites", "lena/output/write.py", "                if data != existing_data:\n", "                if data:\n", ["C19-c"]),
    M("write-other-path", "lena/output/write.py", "            outputc[\"filepath\"] = filepath\n", "            outputc[\"filepath\"] = os.path.join(dirname, filename)\n", ["C19-d"]),
    M("group-all", "lena/flow/group_plots.py", "    changed = any((lena.context.get_recursively(c, \"output.changed\", False)", "    changed = all((lena.context.get_recursively(c, \"output.changed\", False)", ["C19-b"]),
    M("mf-overwrites-name", "lena/output/make_filename.py", "                    if not self._overwrite:\n                        continue", "                    if self._overwrite:\n                        continue", ["C19-e"]),
    M("mf-keeps-prefix", "lena/output/make_filename.py", "                    if prefix:\n                        del context[\"output\"][\"prefix\"]\n", "", ["C19-e"]),
    TW("write-comment", "lena/output/write.py", "            # if nothing explicitly stated changes, data is unchanged\n", "            # nothing explicitly stated: unchanged\n"),
    TW("pdf-reordered-guard", "lena/output/latex_to_pdf.py", "if not self._overwrite and os.path.exists(data) and not changed:",
       "if os.path.exists(data) and not changed and not self._overwrite:"),
]
