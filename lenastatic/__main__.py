import sys
from .cli import main
sys.exit(main())
