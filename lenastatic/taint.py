"""A5 -- freshness / alias analysis along enumerated paths.

A tiny abstract interpreter.  Every value is described by a ``Val``:

  ctx     the value is context-kind (a mutable dictionary that came from, or is
          meant for, the context part of a flow value / the static context)
  fresh   a creation token if the object was created on this path and is not
          shared with anything that outlives the call (result of
          ``copy.deepcopy``, a new literal); ``None`` if it is (or may be)
          shared with state that persists
  origin  where a shared value comes from (for the report)
  items   component values of tuple/list/dict literals and of helper results

The interpreter walks the events of one path (paths.py), keeps an environment
for local names and for ``self`` fields assigned on the path (same-class
helpers called as ``self.h()`` are inlined one level), and calls the
``Policy`` hooks at sources and sinks.  A creation token remembers the stack
of loops open when it was created, so "a copy hoisted out of the loop that
contains the yield" is visible; a token is marked *escaped* once it has been
handed out, so handing the same object out twice is visible too.
"""
import ast

from . import astutil as A
from . import paths as P
from .loader import methods

PURE_BUILTINS = {
    "len", "float", "int", "str", "bool", "isinstance", "hasattr", "callable", "repr", "format",
    "sum", "min", "max", "abs", "round", "id", "type", "any", "all", "range", "getattr", "print",
    "sorted", "enumerate", "zip", "map", "filter", "iter", "next", "divmod", "hash", "issubclass",
}


class Fresh(object):
    __slots__ = ("stack", "escaped", "node")

    def __init__(self, stack, node=None):
        self.stack = tuple(stack)
        self.escaped = False
        self.node = node


IMMUTABLE = "immutable"


class Val(object):
    __slots__ = ("ctx", "fresh", "origin", "items", "labels")

    def __init__(self, ctx=False, fresh=None, origin="", items=None, labels=()):
        self.ctx = ctx
        self.fresh = fresh
        self.origin = origin
        self.items = items
        self.labels = frozenset(labels)

    def leaves(self):
        """All component values (self first), through literal structure."""
        out = [self]
        for it in self.items or ():
            out.extend(it.leaves())
        return out

    def all_labels(self):
        s = set()
        for l in self.leaves():
            s |= l.labels
        return s

    def __repr__(self):
        return "Val(ctx=%s fresh=%s %s%s)" % (self.ctx, bool(self.fresh), self.origin,
                                               " items=%d" % len(self.items) if self.items else "")


def join(vals, origin=""):
    vals = [v for v in vals if v is not None]
    if not vals:
        return Val()
    if len(vals) == 1:
        return vals[0]
    ctx = any(v.ctx for v in vals)
    # fresh only if every alternative is fresh; keep the first token (escape marks are approximate)
    fresh = None
    if all(v.fresh for v in vals):
        fresh = vals[0].fresh
    items = []
    for v in vals:
        items.extend(v.items or ())
    shared = [v for v in vals if v.ctx and not v.fresh]
    org = shared[0].origin if shared else (origin or vals[0].origin)
    labels = set()
    for v in vals:
        labels |= v.labels
    return Val(ctx, fresh, org, items or None, labels)


class State(object):
    def __init__(self):
        self.env = {}
        self.fields = {}
        self.loops = []     # stack of open loop nodes
        self.path = None
        self.idx = 0

    def copy(self):
        s = State()
        s.env = dict(self.env)
        s.fields = dict(self.fields)
        s.loops = list(self.loops)
        s.path = self.path
        s.idx = self.idx
        return s


class Policy(object):
    """Hooks; subclass per rule."""

    def __init__(self, res, cls=None):
        self.res = res
        self.cls = cls
        self.ctx_fields = set()
        self.depth = 0

    # sources ---------------------------------------------------------------
    def call_value(self, interp, call, canon, args, state):
        """Abstract result of a call, or None for the default treatment."""
        return None

    def field_value(self, name, state):
        return Val(ctx=name in self.ctx_fields, fresh=None, origin="field self.%s" % name,
                   labels=[("field", name)])

    def param_value(self, fn, name):
        return Val(origin="parameter %s" % name, labels=[("param", name)])

    # sinks -----------------------------------------------------------------
    def on_yield(self, interp, node, val, state):
        pass

    def on_return(self, interp, node, val, state):
        pass

    def on_field_store(self, interp, node, field, val, state):
        pass

    def on_call(self, interp, call, canon, args, state):
        pass

    def on_store(self, interp, node, target, val, state):
        pass


class Interp(object):
    def __init__(self, policy, inline_self=True):
        self.pol = policy
        self.res = policy.res
        self.inline_self = inline_self
        self._summaries = {}

    # -- evaluation -------------------------------------------------------------
    def ev(self, e, st):
        res = self.res
        if e is None:
            return Val(fresh=IMMUTABLE)
        if isinstance(e, ast.Constant):
            return Val(fresh=IMMUTABLE, origin="constant")
        if isinstance(e, ast.Name):
            if e.id in st.env:
                return st.env[e.id]
            return Val(origin="name %s" % e.id)
        if isinstance(e, ast.Attribute):
            if A.is_self_attr(e):
                if e.attr in st.fields:
                    return st.fields[e.attr]
                return self.pol.field_value(e.attr, st)
            base = self.ev(e.value, st)
            # attribute of an object: a sub-object
            return Val(ctx=False, fresh=base.fresh, origin="%s.%s" % (base.origin, e.attr),
                       labels=base.labels)
        if isinstance(e, (ast.Tuple, ast.List, ast.Set)):
            items = [self.ev(x.value if isinstance(x, ast.Starred) else x, st) for x in e.elts]
            return Val(ctx=False, fresh=Fresh(st.loops, e), origin="literal", items=items)
        if isinstance(e, ast.Dict):
            items = [self.ev(v, st) for v in e.values if v is not None]
            return Val(ctx=True, fresh=Fresh(st.loops, e), origin="dict literal", items=items)
        if isinstance(e, ast.Subscript):
            base = self.ev(e.value, st)
            idx = A.const(e.slice)
            if base.items is not None and isinstance(idx, int) and not isinstance(e.value, ast.Dict) \
                    and -len(base.items) <= idx < len(base.items) and base.origin in ("literal", "pair"):
                return base.items[idx]
            return Val(ctx=base.ctx, fresh=base.fresh, origin="item of %s" % (base.origin or A.short(e.value, 40)),
                       items=base.items, labels=base.labels)
        if isinstance(e, ast.IfExp):
            return join([self.ev(e.body, st), self.ev(e.orelse, st)])
        if isinstance(e, ast.BoolOp):
            return join([self.ev(v, st) for v in e.values])
        if isinstance(e, ast.Call):
            return self.call(e, st)
        if isinstance(e, (ast.Yield, ast.YieldFrom, ast.Await)):
            return Val(origin="sent value")
        if isinstance(e, (ast.ListComp, ast.SetComp, ast.GeneratorExp)):
            st2 = st.copy()
            for g in e.generators:
                itv = self.ev(g.iter, st2)
                self.bind(g.target, Val(ctx=itv.ctx, fresh=itv.fresh, origin="element of %s" % itv.origin,
                                        items=itv.items, labels=itv.labels), st2)
            elt = self.ev(e.elt, st2)
            return Val(ctx=False, fresh=Fresh(st.loops, e), origin="comprehension", items=[elt])
        if isinstance(e, ast.DictComp):
            st2 = st.copy()
            for g in e.generators:
                itv = self.ev(g.iter, st2)
                self.bind(g.target, Val(ctx=itv.ctx, fresh=itv.fresh, origin="element of %s" % itv.origin,
                                        labels=itv.labels), st2)
            return Val(ctx=True, fresh=Fresh(st.loops, e), origin="dict comprehension",
                       items=[self.ev(e.value, st2)])
        if isinstance(e, ast.Lambda):
            return Val(fresh=IMMUTABLE, origin="lambda")
        if isinstance(e, ast.Starred):
            return self.ev(e.value, st)
        if isinstance(e, ast.NamedExpr):
            v = self.ev(e.value, st)
            self.bind(e.target, v, st)
            return v
        # arithmetic, comparisons, f-strings ...: new immutable-ish values
        return Val(fresh=IMMUTABLE, origin=type(e).__name__)

    def call(self, call, st):
        res = self.res
        canon = res.canon(call.func)
        args = [self.ev(a.value if isinstance(a, ast.Starred) else a, st) for a in call.args]
        kwargs = [self.ev(k.value, st) for k in call.keywords]
        allargs = args + kwargs
        self.pol.on_call(self, call, canon, allargs, st)
        v = self.pol.call_value(self, call, canon, allargs, st)
        if v is not None:
            return v
        if canon == "copy.deepcopy" and args:
            a = args[0]
            return Val(ctx=a.ctx, fresh=Fresh(st.loops, call), origin="deepcopy of %s" % (a.origin or "value"),
                       labels=a.all_labels())
        if canon in ("copy.copy", "builtins.dict", "builtins.list", "builtins.tuple", "builtins.set") and args:
            a = args[0]
            # shallow: a new container whose items are the old items
            return Val(ctx=a.ctx, fresh=Fresh(st.loops, call), origin="shallow copy of %s" % (a.origin or "value"),
                       items=[Val(ctx=a.ctx and bool(a.items is None), fresh=a.fresh,
                                  origin="items shared with %s" % (a.origin or "value"), items=a.items,
                                  labels=a.labels)] if (a.ctx or a.items) and not a.fresh == IMMUTABLE else None)
        if isinstance(call.func, ast.Attribute) and call.func.attr == "copy" and not call.args:
            a = self.ev(call.func.value, st)
            return Val(ctx=a.ctx, fresh=Fresh(st.loops, call), origin="shallow copy of %s" % (a.origin or "value"),
                       items=[Val(ctx=False, fresh=a.fresh, origin="items shared with %s" % a.origin, items=a.items,
                                  labels=a.labels)] if a.items else
                       ([Val(ctx=a.ctx, fresh=a.fresh, origin="items shared with %s" % a.origin, labels=a.labels)]
                        if a.ctx and a.fresh != IMMUTABLE else None))
        if canon is not None and canon.startswith("builtins.") and canon.split(".", 1)[1] in PURE_BUILTINS:
            return Val(fresh=IMMUTABLE, origin="result of %s" % canon)
        # self.method(...)
        if isinstance(call.func, ast.Attribute) and A.is_self_attr(call.func) and self.pol.cls is not None:
            ms = methods(self.pol.cls)
            h = ms.get(call.func.attr)
            if h is not None and self.inline_self and self.pol.depth < 2:
                return self.inline(h, call, allargs, st)
        # module-level helper of the tree: summary
        t = res.resolve(call.func)
        if t is not None and t.is_func and self.pol.depth < 2:
            flows = self.summary(t.node)
            items = []
            params = A.func_params(t.node)
            for i, a in enumerate(args):
                if i < len(params) and params[i] in flows:
                    items.append(a)
            for k, v2 in zip(call.keywords, kwargs):
                if k.arg in flows:
                    items.append(v2)
            if flows.get("<fresh>"):
                return Val(ctx=any(i.ctx for i in items), fresh=Fresh(st.loops, call),
                           origin="result of %s" % t.name, items=items or None)
            return Val(ctx=False, fresh=Fresh(st.loops, call) if not items else None,
                       origin="result of %s" % t.name, items=items or None)
        if t is not None and t.is_class:
            # constructing an object: it may keep its arguments
            return Val(ctx=False, fresh=Fresh(st.loops, call), origin="new %s" % t.name, items=allargs or None)
        # unknown callee: the result may contain the arguments
        rec = None
        if isinstance(call.func, ast.Attribute):
            rec = self.ev(call.func.value, st)
        items = [a for a in allargs if a.ctx or a.items]
        if rec is not None and (rec.ctx or rec.items):
            items.append(Val(ctx=rec.ctx, fresh=rec.fresh, origin="part of %s" % rec.origin, items=rec.items,
                             labels=rec.labels))
        return Val(ctx=False, fresh=None if items else Fresh(st.loops, call),
                   origin="result of %s" % A.short(call.func, 40), items=items or None)

    def summary(self, fn):
        """{param name: True} for parameters that may reach the return value
        without a deep copy."""
        if fn in self._summaries:
            return self._summaries[fn]
        self._summaries[fn] = {}
        flows = {}

        rets = []

        class Pol(Policy):
            def on_return(pol, interp, node, val, state):
                rets.append(bool(val.fresh) and val.fresh != IMMUTABLE and val.origin.startswith("deepcopy"))
                for leaf in val.leaves():
                    for lab in leaf.labels:
                        if lab[0] == "param" and not leaf.fresh:
                            flows[lab[1]] = True

            def on_yield(pol, interp, node, val, state):
                pol.on_return(interp, node, val, state)

        pol = Pol(self.res)
        pol.depth = self.pol.depth + 1
        it = Interp(pol, inline_self=False)
        try:
            it.run_function(fn)
        except Exception:
            for p in A.func_params(fn):
                flows[p] = True
            rets.append(False)
        if rets and all(rets):
            flows["<fresh>"] = True
        self._summaries[fn] = flows
        return flows

    def inline(self, h, call, args, st):
        """Interpret helper method h (paths from the current state), merge the
        field effects back, return the join of its return values."""
        rets = []
        finals = []
        self.pol.depth += 1
        try:
            for p in P.paths_of(h):
                s2 = st.copy()
                s2.env = {}
                params = [x for x in A.func_params(h) if x != "self"]
                for nm, a in zip(params, args):
                    s2.env[nm] = a
                for nm in params[len(args):]:
                    s2.env[nm] = Val(origin="parameter %s" % nm)
                r = self.run_path(p, s2, collect_return=True)
                if p.end != "raise":
                    finals.append(s2)
                    rets.append(r)
        finally:
            self.pol.depth -= 1
        if finals:
            keys = set()
            for f in finals:
                keys |= set(f.fields)
            for k in keys:
                vals = [f.fields.get(k) or self.pol.field_value(k, st) for f in finals]
                st.fields[k] = join(vals)
        return join([r for r in rets if r is not None]) if rets else Val()

    # -- binding ----------------------------------------------------------------
    def bind(self, target, val, st, node=None):
        if isinstance(target, ast.Name):
            st.env[target.id] = val
        elif isinstance(target, (ast.Tuple, ast.List)):
            n = len(target.elts)
            if val.items is not None and len(val.items) == n and val.origin in ("literal", "pair"):
                for t, v in zip(target.elts, val.items):
                    self.bind(t, v, st, node)
            else:
                for t in target.elts:
                    self.bind(t, Val(ctx=val.ctx, fresh=val.fresh, origin="component of %s" % val.origin,
                                     items=val.items, labels=val.labels), st, node)
        elif isinstance(target, ast.Attribute) and A.is_self_attr(target):
            st.fields[target.attr] = val
            self.pol.on_field_store(self, node or target, target.attr, val, st)
        elif isinstance(target, ast.Starred):
            self.bind(target.value, val, st, node)
        else:
            self.pol.on_store(self, node or target, target, val, st)

    # -- statements ---------------------------------------------------------------
    def exec_stmt(self, s, st):
        for y in [n for n in A.walk_local(s) if isinstance(n, (ast.Yield, ast.YieldFrom))]:
            v = self.ev(y.value, st) if y.value is not None else Val(fresh=IMMUTABLE)
            self.pol.on_yield(self, y, v, st)
        if isinstance(s, ast.Assign):
            v = self.ev(s.value, st)
            for t in s.targets:
                self.bind(t, v, st, s)
        elif isinstance(s, ast.AnnAssign):
            if s.value is not None:
                self.bind(s.target, self.ev(s.value, st), st, s)
        elif isinstance(s, ast.AugAssign):
            self.ev(s.value, st)
            if isinstance(s.target, ast.Name):
                st.env[s.target.id] = Val(origin="augmented %s" % s.target.id)
            elif A.is_self_attr(s.target):
                st.fields[s.target.attr] = Val(origin="augmented field %s" % s.target.attr)
        elif isinstance(s, ast.Expr):
            if not isinstance(s.value, (ast.Yield, ast.YieldFrom)):
                self.ev(s.value, st)
        elif isinstance(s, ast.Return):
            v = self.ev(s.value, st) if s.value is not None else Val(fresh=IMMUTABLE)
            self.pol.on_return(self, s, v, st)
            return v
        elif isinstance(s, ast.Delete):
            for t in s.targets:
                if isinstance(t, ast.Name):
                    st.env.pop(t.id, None)
        elif isinstance(s, (ast.Raise, ast.Assert)):
            pass
        return None

    def run_path(self, path, st, collect_return=False):
        st.path = path
        ret = None
        for i, e in enumerate(path.ev):
            st.idx = i
            k = e[0]
            if k == "stmt":
                r = self.exec_stmt(e[1], st)
                if r is not None:
                    ret = r
            elif k == "iter":
                loop = e[1]
                st.loops.append(loop)
                itv = self.ev(loop.iter, st)
                self.bind(loop.target, Val(ctx=itv.ctx, fresh=itv.fresh,
                                           origin="element of %s" % (itv.origin or A.short(loop.iter, 40)),
                                           items=itv.items, labels=itv.labels), st, loop)
            elif k == "enter":
                st.loops.append(e[1])
            elif k in ("backedge", "break"):
                if st.loops and st.loops[-1] is e[1]:
                    st.loops.pop()
                elif e[1] in st.loops:
                    while st.loops and st.loops.pop() is not e[1]:
                        pass
            elif k == "with":
                for it in e[1].items:
                    v = self.ev(it.context_expr, st)
                    if it.optional_vars is not None:
                        self.bind(it.optional_vars, Val(origin="with target"), st, e[1])
            elif k == "exc":
                if e[1].name:
                    st.env[e[1].name] = Val(origin="caught exception")
            elif k == "cond":
                # evaluate for call side effects (policy on_call hooks)
                self.ev(e[1], st)
            elif k == "partial":
                # the interrupted statement may or may not have bound its targets
                s = e[1]
                for tgt in A.assigned_targets(s):
                    for nm in A.target_names(tgt):
                        if nm in st.env:
                            st.env[nm] = join([st.env[nm], Val(origin="maybe rebound")])
        return ret

    def run_function(self, fn, param_vals=None):
        for p in P.paths_of(fn):
            st = State()
            for nm in A.func_params(fn):
                if nm == "self":
                    continue
                st.env[nm] = (param_vals or {}).get(nm) or self.pol.param_value(fn, nm)
            self.run_path(p, st)
