"""A1 -- name and call resolution on the parsed program.

Everything is resolved to a *Target* with a canonical dotted name, e.g.
``lena.core.exceptions.LenaTypeError``, ``copy.deepcopy``, ``builtins.list``.
``exceptions.LenaTypeError``, ``lena.core.LenaTypeError`` and a
``LenaTypeError`` imported from ``lena.core`` all give the same Target.
"""
import ast
import builtins

from . import astutil as A
from .loader import AnalysisError

BUILTINS = set(dir(builtins))


class T(object):
    """Resolution target."""
    __slots__ = ("kind", "name", "node", "module")

    def __init__(self, kind, name, node=None, module=None):
        self.kind = kind      # module | ext | def | var | builtin | local | unknown
        self.name = name
        self.node = node
        self.module = module  # defining lena module name for def/var

    def __repr__(self):
        return "T(%s %s)" % (self.kind, self.name)

    def __eq__(self, other):
        return isinstance(other, T) and (self.kind, self.name) == (other.kind, other.name)

    def __hash__(self):
        return hash((self.kind, self.name))

    @property
    def is_class(self):
        return self.kind == "def" and isinstance(self.node, ast.ClassDef)

    @property
    def is_func(self):
        return self.kind == "def" and isinstance(self.node, (ast.FunctionDef, ast.AsyncFunctionDef))


_MIRROR = {ast.Eq: ast.Eq, ast.NotEq: ast.NotEq, ast.Lt: ast.Gt, ast.LtE: ast.GtE, ast.Gt: ast.Lt, ast.GtE: ast.LtE}


def _is_version_const(e):
    """An int constant or a tuple of constants: the constant side of a version test."""
    if isinstance(e, ast.Tuple):
        return bool(e.elts) and all(isinstance(x, ast.Constant) for x in e.elts)
    return isinstance(e, ast.Constant) and isinstance(e.value, int)


def fold_version(test):
    """True/False for tests on sys.version_info that are decided under
    Python 3, None otherwise."""
    t, pol = A.strip_not(test)
    val = None
    if isinstance(t, ast.BoolOp):
        vals = [fold_version(v) for v in t.values]
        if isinstance(t.op, ast.And):
            if any(v is False for v in vals):
                val = False
            elif all(v is True for v in vals):
                val = True
        else:
            if any(v is True for v in vals):
                val = True
            elif all(v is False for v in vals):
                val = False
    elif isinstance(t, ast.Compare) and len(t.ops) == 1:
        left, op, right = t.left, t.ops[0], t.comparators[0]
        if _is_version_const(left) and not _is_version_const(right):
            # `2 == sys.version_info.major`, `(3,) <= sys.version_info`: same test, mirrored spelling
            mirrored = _MIRROR.get(type(op))
            if mirrored is None:
                return None
            left, op, right = right, mirrored(), left
        ls = A.src(left)
        if ls in ("sys.version_info.major", "sys.version_info[0]") and isinstance(right, ast.Constant) \
                and isinstance(right.value, int):
            k = right.value
            major = 3
            val = {ast.Eq: major == k, ast.NotEq: major != k, ast.Lt: major < k, ast.LtE: major <= k,
                   ast.Gt: major > k, ast.GtE: major >= k}.get(type(op))
        elif ls == "sys.version_info" and isinstance(right, ast.Tuple) and right.elts \
                and isinstance(right.elts[0], ast.Constant) and isinstance(right.elts[0].value, int):
            k = right.elts[0].value
            # only decide when the major number alone decides
            if isinstance(op, (ast.Lt, ast.LtE)) and k <= 3 and not (k == 3 and len(right.elts) > 1):
                val = False if k < 3 or isinstance(op, ast.Lt) else None
            elif isinstance(op, (ast.Gt, ast.GtE)) and k < 3:
                val = True
            elif isinstance(op, ast.GtE) and k == 3 and len(right.elts) == 1:
                val = True
    if val is None:
        return None
    return val if pol else (not val)


class Binding(object):
    __slots__ = ("kind", "a", "b", "node")

    def __init__(self, kind, a=None, b=None, node=None):
        self.kind = kind  # import | from | def | class | assign
        self.a = a
        self.b = b
        self.node = node

    def __repr__(self):
        return "B(%s %s %s)" % (self.kind, self.a, self.b)


def abs_module(cur_module, level, name):
    """Absolute module name for ``from <level dots><name> import``."""
    if level == 0:
        return name
    base = cur_module.name.split(".") if cur_module.is_pkg else cur_module.name.split(".")[:-1]
    if level > 1:
        base = base[: len(base) - (level - 1)]
    return ".".join(base + ([name] if name else []))


def top_level_statements(body):
    """Flatten module-level statements in execution order, folding
    sys.version_info branches for Python 3 and descending into try/if/with/for
    blocks (a name bound on some branch counts as possibly bound)."""
    for st in body:
        if isinstance(st, ast.If):
            v = fold_version(st.test)
            if v is True:
                for x in top_level_statements(st.body):
                    yield x
            elif v is False:
                for x in top_level_statements(st.orelse):
                    yield x
            else:
                for x in top_level_statements(st.body):
                    yield x
                for x in top_level_statements(st.orelse):
                    yield x
        elif isinstance(st, ast.Try):
            for blk in (st.body, st.orelse, st.finalbody):
                for x in top_level_statements(blk):
                    yield x
            for h in st.handlers:
                if h.name:
                    pass
                for x in top_level_statements(h.body):
                    yield x
        elif isinstance(st, (ast.With, ast.For, ast.While)):
            yield st
            for x in top_level_statements(st.body):
                yield x
            for x in top_level_statements(getattr(st, "orelse", [])):
                yield x
        else:
            yield st


def statement_bindings(st, module):
    """[(name, Binding)] bound by one (simple) statement."""
    out = []
    if isinstance(st, ast.Import):
        for a in st.names:
            if a.asname:
                out.append((a.asname, Binding("import", a.name, None, st)))
            else:
                out.append((a.name.split(".")[0], Binding("import", a.name.split(".")[0], a.name, st)))
    elif isinstance(st, ast.ImportFrom):
        src = abs_module(module, st.level, st.module)
        for a in st.names:
            if a.name == "*":
                out.append(("*", Binding("star", src, None, st)))
            else:
                out.append((a.asname or a.name, Binding("from", src, a.name, st)))
    elif isinstance(st, (ast.FunctionDef, ast.AsyncFunctionDef)):
        out.append((st.name, Binding("def", node=st)))
    elif isinstance(st, ast.ClassDef):
        out.append((st.name, Binding("class", node=st)))
    else:
        for tgt in A.assigned_targets(st):
            for nm in A.target_names(tgt):
                out.append((nm, Binding("assign", node=st)))
        # walrus etc. do not occur at module level in lena
    return out


class Resolver(object):
    def __init__(self, tree):
        self.tree = tree
        self._ns = {}
        self._lookup_cache = {}

    # -- module namespaces ---------------------------------------------------
    def namespace(self, modname):
        """name -> [Binding] for the fully initialised module."""
        ns = self._ns.get(modname)
        if ns is None:
            m = self.tree.modules[modname]
            ns = {}
            for st in top_level_statements(m.tree.body):
                for name, b in statement_bindings(st, m):
                    if name == "*":
                        if b.a in self.tree.modules:
                            for n2 in self.public_names(b.a):
                                ns.setdefault(n2, []).append(Binding("from", b.a, n2, b.node))
                        continue
                    ns.setdefault(name, []).append(b)
            self._ns[modname] = ns
        return ns

    def public_names(self, modname):
        m = self.tree.modules[modname]
        ns = self.namespace(modname)
        allv = self.dunder_all(modname)
        if allv is not None:
            return [n for n, _ in allv]
        return [n for n in ns if not n.startswith("_")]

    def dunder_all(self, modname):
        """[(name, node)] of a literal __all__, or None."""
        m = self.tree.modules[modname]
        out = None
        for st in top_level_statements(m.tree.body):
            if isinstance(st, ast.Assign) and any(isinstance(t, ast.Name) and t.id == "__all__" for t in st.targets):
                if isinstance(st.value, (ast.List, ast.Tuple)):
                    out = [(e.value, e) for e in st.value.elts if isinstance(e, ast.Constant) and isinstance(e.value, str)]
            elif isinstance(st, ast.AugAssign) and isinstance(st.target, ast.Name) and st.target.id == "__all__":
                if isinstance(st.value, (ast.List, ast.Tuple)) and out is not None:
                    out = out + [(e.value, e) for e in st.value.elts
                                 if isinstance(e, ast.Constant) and isinstance(e.value, str)]
        return out

    def lookup(self, modname, name, _seen=None):
        """Target of global *name* in lena module *modname* (final namespace)."""
        key = (modname, name)
        if key in self._lookup_cache:
            return self._lookup_cache[key]
        _seen = _seen or set()
        if key in _seen:
            return None
        _seen = _seen | {key}
        res = None
        if modname in self.tree.modules:
            ns = self.namespace(modname)
            bs = ns.get(name)
            if bs:
                # the last binding wins at run time; prefer the last one that resolves
                for b in reversed(bs):
                    res = self._binding_target(modname, name, b, _seen)
                    if res is not None:
                        break
            if res is None:
                sub = modname + "." + name
                if sub in self.tree.modules:
                    res = T("module", sub)
        self._lookup_cache[key] = res
        return res

    def _binding_target(self, modname, name, b, _seen):
        if b.kind == "import":
            full = b.a
            if full.split(".")[0] == "lena" and full in self.tree.modules:
                return T("module", full)
            if full.split(".")[0] == "lena":
                return None
            return T("ext", full)
        if b.kind == "from":
            src = b.a
            if src in self.tree.modules:
                r = self.lookup(src, b.b, _seen)
                if r is None and (src + "." + b.b) in self.tree.modules:
                    r = T("module", src + "." + b.b)
                return r
            if src.split(".")[0] == "lena":
                return None
            return T("ext", src + "." + b.b)
        if b.kind in ("def", "class"):
            return T("def", modname + "." + name, b.node, modname)
        if b.kind == "assign":
            return T("var", modname + "." + name, b.node, modname)
        return None

    # -- attribute of a target ------------------------------------------------
    def attr(self, target, attr):
        if target is None:
            return None
        if target.kind == "module":
            sub = target.name + "." + attr
            r = self.lookup(target.name, attr)
            if r is not None:
                return r
            if sub in self.tree.modules:
                return T("module", sub)
            return None
        if target.kind == "ext":
            return T("ext", target.name + "." + attr)
        if target.is_class:
            meth = self.class_attr(target, attr)
            return meth
        if target.kind == "builtin":
            return T("ext", target.name + "." + attr)
        return None

    # -- classes -----------------------------------------------------------
    def bases(self, ctarget):
        out = []
        mod = self.tree.modules[ctarget.module]
        for b in ctarget.node.bases:
            out.append(self.resolve(b))
        return out

    def mro(self, ctarget, _seen=None):
        """Linearised (depth first, good enough for lena) list of class targets;
        unresolved/external bases appear as they resolve."""
        _seen = _seen or set()
        if ctarget is None or ctarget.name in _seen:
            return []
        _seen.add(ctarget.name)
        out = [ctarget]
        if ctarget.is_class:
            for b in self.bases(ctarget):
                if b is not None:
                    out.extend(self.mro(b, _seen))
        return out

    def is_subclass(self, ctarget, canon):
        return any(c.name == canon for c in self.mro(ctarget))

    def class_attr(self, ctarget, name):
        from .loader import methods
        for c in self.mro(ctarget):
            if not c.is_class:
                continue
            ms = methods(c.node)
            if name in ms:
                return T("def", c.name + "." + name, ms[name], c.module)
            for st in c.node.body:
                for tgt in A.assigned_targets(st):
                    if name in A.target_names(tgt):
                        return T("var", c.name + "." + name, st, c.module)
        return None

    def class_target(self, modname, clsname):
        m = self.tree.modules.get(modname)
        node = m.get(clsname) if m else None
        if not isinstance(node, ast.ClassDef):
            raise AnalysisError("anchor vanished: class %s:%s" % (modname, clsname))
        return T("def", modname + "." + clsname, node, modname)

    # -- expressions -----------------------------------------------------
    def local_binding(self, name, at):
        """How *name* is bound in the function scopes enclosing *at*:
        ('import', Binding) / ('local', node) / None (not local)."""
        n = at
        while True:
            fn = A.enclosing(n, A.FUNC + (ast.ListComp, ast.SetComp, ast.DictComp, ast.GeneratorExp))
            if fn is None:
                return None
            if isinstance(fn, (ast.ListComp, ast.SetComp, ast.DictComp, ast.GeneratorExp)):
                for g in fn.generators:
                    if name in A.target_names(g.target):
                        return ("local", g)
                n = fn
                continue
            if isinstance(fn, ast.Lambda):
                if name in A.func_params(fn):
                    return ("local", fn)
                n = fn
                continue
            # a def
            table = getattr(fn, "_local_table", None)
            if table is None:
                table = _local_table(fn)
                fn._local_table = table
            if name in table:
                if table[name] is None:
                    return None  # declared global
                return table[name]
            # class scope between? names in class bodies are not visible in methods
            n = fn

    def resolve(self, expr):
        """Target for a Name / Attribute chain expression, or None."""
        mod = expr._module
        if isinstance(expr, ast.Name):
            lb = self.local_binding(expr.id, expr)
            if lb is not None:
                if lb[0] == "import":
                    return self._binding_target(mod.name, expr.id, lb[1], set())
                if lb[0] == "localdef":
                    return T("def", mod.name + "." + A.qualname(lb[1]), lb[1], mod.name)
                return T("local", expr.id, lb[1])
            # class-body names for expressions directly in a class body
            r = self.lookup(mod.name, expr.id)
            if r is not None:
                return r
            if expr.id in BUILTINS:
                return T("builtin", "builtins." + expr.id)
            return None
        if isinstance(expr, ast.Attribute):
            base = self.resolve(expr.value)
            if base is None:
                return None
            if base.kind == "local":
                return None
            return self.attr(base, expr.attr)
        return None

    def canon(self, expr):
        t = self.resolve(expr)
        if t is None or t.kind == "local":
            return None
        return t.name

    def call_canon(self, call):
        return self.canon(call.func) if isinstance(call, ast.Call) else None

    def is_call_to(self, node, *canons):
        return isinstance(node, ast.Call) and self.canon(node.func) in canons


def _local_table(fn):
    """name -> ('import', Binding) | ('local', node) | ('localdef', node) | None (declared global)."""
    table = {}
    globals_ = set()
    for x in A.walk_local(fn, include_self=False):
        if isinstance(x, ast.Global):
            globals_.update(x.names)
        elif isinstance(x, (ast.Import, ast.ImportFrom)):
            for nm, b in statement_bindings(x, fn._module):
                table[nm] = ("import", b)
        elif isinstance(x, ast.Name) and isinstance(x.ctx, (ast.Store, ast.Del)):
            comp = A.enclosing(x, (ast.ListComp, ast.SetComp, ast.DictComp, ast.GeneratorExp))
            if comp is not None and _in_comp_target(x, comp):
                continue
            table.setdefault(x.id, ("local", x))
        elif isinstance(x, ast.ExceptHandler) and x.name:
            table.setdefault(x.name, ("local", x))
        elif isinstance(x, (ast.FunctionDef, ast.AsyncFunctionDef, ast.ClassDef)) and x is not fn:
            table.setdefault(x.name, ("localdef", x))
    for p in A.func_params(fn):
        table[p] = ("local", fn)
    for g in globals_:
        table[g] = None
    return table


def _in_comp_target(name_node, comp):
    for g in comp.generators:
        for n in ast.walk(g.target):
            if n is name_node:
                return True
    return False


DEEPCOPY = ("copy.deepcopy",)


def is_deepcopy(res, node):
    return isinstance(node, ast.Call) and res.canon(node.func) == "copy.deepcopy"
